/* Fake git/hg/hook executable used as a boundary monitor.
 *
 * Installed under the names `git`, `hg`, `hook-pre`, `hook-post` (copies or symlinks).
 * Every invocation appends ONE line to $BVMON_LOG, so VCS commands, hooks and the state of
 * the project files at that very moment are totally ordered in a single history:
 *
 *   seq \t name \t argv(hex, space separated) \t env(hex k=v, space separated)
 *       \t files(hexpath:fnv64, space separated) \t extra(hex) \t exitcode \n
 *
 * Behaviour is driven by files in $BVMON_CTL:
 *   fail_nth     integer k: the k-th logged invocation exits 1
 *   fail_match   lines; an invocation whose "name arg1 arg2 ..." starts with a line exits 1
 *   kill_match   lines; an invocation whose "name arg1 arg2 ..." starts with a line dies from SIGKILL (after logging)
 *   hook_noise   integer N: a hook executable writes N bytes to stderr (and a few lines to stdout) before exiting
 *   fetched      marker written by a successful fetch/pull; then out/<key>.after_fetch replaces out/<key>
 *   out/<key>    canned stdout for read-only queries (key: status, tag-list, tag-merged,
 *                branch, remote, fetch, rev-parse, root)
 * Nothing is ever mutated by this program.
 */
#include <dirent.h>
#include <stdint.h>
#include <stdio.h>
#include <stdlib.h>
#include <string.h>
#include <sys/stat.h>
#include <unistd.h>
#include <fcntl.h>
#include <signal.h>

static char *buf;
static size_t blen, bcap;

static void put(const char *s, size_t n) {
    if (blen + n + 1 > bcap) {
        bcap = (blen + n + 1) * 2 + 4096;
        buf = realloc(buf, bcap);
    }
    memcpy(buf + blen, s, n);
    blen += n;
    buf[blen] = 0;
}
static void puts_(const char *s) { put(s, strlen(s)); }
static void puthex(const unsigned char *s, size_t n) {
    static const char *h = "0123456789abcdef";
    char two[2];
    for (size_t i = 0; i < n; i++) {
        two[0] = h[s[i] >> 4];
        two[1] = h[s[i] & 15];
        put(two, 2);
    }
    if (n == 0) puts_("-");
}

static unsigned char *slurp(const char *path, size_t *n) {
    FILE *f = fopen(path, "rb");
    if (!f) return NULL;
    size_t cap = 4096, len = 0;
    unsigned char *d = malloc(cap);
    for (;;) {
        size_t r = fread(d + len, 1, cap - len, f);
        len += r;
        if (r == 0) break;
        if (len == cap) { cap *= 2; d = realloc(d, cap); }
    }
    fclose(f);
    *n = len;
    return d;
}

static int nfiles = 0;
static void walk(const char *dir, int depth) {
    DIR *d = opendir(dir);
    if (!d) return;
    struct dirent *e;
    while ((e = readdir(d)) != NULL && nfiles < 400) {
        if (!strcmp(e->d_name, ".") || !strcmp(e->d_name, "..")) continue;
        if (!strcmp(e->d_name, ".git") || !strcmp(e->d_name, ".hg")) continue;
        char path[4096];
        if (!strcmp(dir, "."))
            snprintf(path, sizeof path, "%s", e->d_name);
        else
            snprintf(path, sizeof path, "%s/%s", dir, e->d_name);
        struct stat st;
        if (lstat(path, &st) != 0) continue;
        if (S_ISDIR(st.st_mode)) {
            if (depth < 5) walk(path, depth + 1);
        } else if (S_ISREG(st.st_mode)) {
            size_t n = 0;
            unsigned char *data = slurp(path, &n);
            uint64_t hsh = 1469598103934665603ULL;
            for (size_t i = 0; i < n; i++) { hsh ^= data[i]; hsh *= 1099511628211ULL; }
            free(data);
            char tmp[40];
            if (nfiles++) puts_(" ");
            puthex((const unsigned char *)path, strlen(path));
            snprintf(tmp, sizeof tmp, ":%016llx", (unsigned long long)hsh);
            puts_(tmp);
        }
    }
    closedir(d);
}

int main(int argc, char **argv) {
    const char *log = getenv("BVMON_LOG");
    const char *ctl = getenv("BVMON_CTL");
    const char *name = strrchr(argv[0], '/');
    name = name ? name + 1 : argv[0];
    int is_hook = strncmp(name, "hook", 4) == 0;
    char path[4096];

    /* sequence number = number of lines already in the log + 1 */
    long seq = 1;
    if (log) {
        size_t n = 0;
        unsigned char *d = slurp(log, &n);
        if (d) { for (size_t i = 0; i < n; i++) if (d[i] == '\n') seq++; free(d); }
    }

    /* joined command line for fail_match */
    char joined[8192];
    size_t jl = (size_t)snprintf(joined, sizeof joined, "%s", name);
    for (int i = 1; i < argc && jl < sizeof joined - 2; i++)
        jl += (size_t)snprintf(joined + jl, sizeof joined - jl, " %s", argv[i]);

    int fail = 0;
    if (ctl) {
        size_t n = 0;
        snprintf(path, sizeof path, "%s/fail_nth", ctl);
        unsigned char *d = slurp(path, &n);
        if (d) { d = realloc(d, n + 1); d[n] = 0; if (atol((char *)d) == seq) fail = 1; free(d); }
        snprintf(path, sizeof path, "%s/fail_match", ctl);
        d = slurp(path, &n);
        if (d) {
            d = realloc(d, n + 1); d[n] = 0;
            char *save = NULL;
            for (char *ln = strtok_r((char *)d, "\n", &save); ln; ln = strtok_r(NULL, "\n", &save)) {
                size_t l = strlen(ln);
                if (l && strncmp(joined, ln, l) == 0 && (joined[l] == 0 || joined[l] == ' ')) fail = 1;
            }
            free(d);
        }
    }
    int killme = 0;
    if (ctl) {
        size_t n = 0;
        snprintf(path, sizeof path, "%s/kill_match", ctl);
        unsigned char *d = slurp(path, &n);
        if (d) {
            d = realloc(d, n + 1); d[n] = 0;
            char *save = NULL;
            for (char *ln = strtok_r((char *)d, "\n", &save); ln; ln = strtok_r(NULL, "\n", &save)) {
                size_t l = strlen(ln);
                if (l && strncmp(joined, ln, l) == 0 && (joined[l] == 0 || joined[l] == ' ')) killme = 1;
            }
            free(d);
        }
    }
    if (killme) fail = 1;   /* a killed invocation is a failed one: logged with a non-zero exit */

    /* canned stdout */
    const char *key = NULL;
    if (!is_hook && argc > 1) {
        const char *a1 = argv[1];
        if (!strcmp(a1, "tag") && argc > 2 && !strcmp(argv[2], "--list")) {
            key = "tag-list";
            for (int i = 3; i < argc; i++) if (!strcmp(argv[i], "--merged")) key = "tag-merged";
        }
        else if (!strcmp(a1, "tags")) key = "tag-list";
        else if (!strcmp(a1, "log")) key = "tag-merged";
        else if (!strcmp(a1, "config") || !strcmp(a1, "paths")) key = "remote";
        else if (!strcmp(a1, "pull") || !strcmp(a1, "fetch")) key = "fetch";
        else if (!strcmp(a1, "status")) key = "status";
        else if (!strcmp(a1, "branch")) key = "branch";
        else if (!strcmp(a1, "rev-parse")) key = "rev-parse";
        else if (!strcmp(a1, "root")) key = "root";
    }
    int exitcode = fail ? 1 : 0;
    if (is_hook && ctl) {
        /* hook_noise: N -> the hook writes N bytes (lines of 64) to stderr and 3 lines to stdout before it exits */
        size_t n = 0;
        snprintf(path, sizeof path, "%s/hook_noise", ctl);
        unsigned char *d = slurp(path, &n);
        if (d) {
            d = realloc(d, n + 1); d[n] = 0;
            long want = atol((char *)d);
            free(d);
            char line[65];
            memset(line, 'x', 63); line[63] = '\n'; line[64] = 0;
            fputs("hook: start\n", stdout); fflush(stdout);
            for (long w = 0; w < want; w += 64) { fputs(line, stderr); }
            fflush(stderr);
            fputs("hook: middle\nhook: done\n", stdout); fflush(stdout);
        }
    }
    if (!fail && key && ctl) {
        size_t n = 0;
        /* a successful fetch/pull leaves a marker; afterwards out/<key>.after_fetch (if present) replaces out/<key> */
        unsigned char *d = NULL;
        if (!strcmp(key, "fetch")) {
            snprintf(path, sizeof path, "%s/fetched", ctl);
            FILE *m = fopen(path, "w");
            if (m) fclose(m);
        } else {
            snprintf(path, sizeof path, "%s/fetched", ctl);
            if (access(path, F_OK) == 0) {
                snprintf(path, sizeof path, "%s/out/%s.after_fetch", ctl, key);
                d = slurp(path, &n);
            }
        }
        if (!d) {
            snprintf(path, sizeof path, "%s/out/%s", ctl, key);
            d = slurp(path, &n);
        }
        if (d) { fwrite(d, 1, n, stdout); fflush(stdout); free(d); }
        else if (!strcmp(key, "remote") && !strcmp(name, "git")) exitcode = 1; /* like real git */
    }

    if (log) {
        char tmp[64];
        snprintf(tmp, sizeof tmp, "%ld\t", seq);
        puts_(tmp);
        puts_(name);
        puts_("\t");
        if (argc <= 1) puts_("-");
        for (int i = 1; i < argc; i++) {
            if (i > 1) puts_(" ");
            puthex((unsigned char *)argv[i], strlen(argv[i]));
        }
        puts_("\t");
        const char *envs[] = {"BUMPVER_OLD_VERSION", "BUMPVER_NEW_VERSION", "HGENCODING"};
        int ne = 0;
        for (int i = 0; i < 3; i++) {
            const char *v = getenv(envs[i]);
            if (!v) continue;
            char kv[4096];
            int l = snprintf(kv, sizeof kv, "%s=%s", envs[i], v);
            if (ne++) puts_(" ");
            puthex((unsigned char *)kv, (size_t)l);
        }
        if (!ne) puts_("-");
        puts_("\t");
        walk(".", 0);
        if (!nfiles) puts_("-");
        puts_("\t");
        /* extra: content of hg's --logfile */
        int had_extra = 0;
        for (int i = 1; i + 1 < argc; i++) {
            if (!strcmp(argv[i], "--logfile")) {
                size_t n = 0;
                unsigned char *d = slurp(argv[i + 1], &n);
                if (d) { puthex(d, n); had_extra = 1; free(d); }
            }
        }
        if (!had_extra) puts_("-");
        snprintf(tmp, sizeof tmp, "\t%d\n", exitcode);
        puts_(tmp);
        int fd = open(log, O_WRONLY | O_APPEND | O_CREAT, 0644);
        if (fd >= 0) { if (write(fd, buf, blen) < 0) {} close(fd); }
    }
    if (killme) { fflush(NULL); raise(SIGKILL); }
    if (fail) fprintf(stderr, "fake %s: injected failure\n", name);
    return exitcode;
}

#!/venv/bin/python
"""Regenerate the seeded-change table of DESIGN.md (between the SEEDED-TABLE markers) from seeded/*/meta.json."""
import glob
import json
import os

VERIF = os.path.dirname(os.path.dirname(os.path.abspath(__file__)))
rows = ["| seeded change | needs, to manifest | detected by (quick tier) |", "|---|---|---|"]
n = 0
for d in sorted(glob.glob(os.path.join(VERIF, "seeded", "*"))):
    m = json.load(open(os.path.join(d, "meta.json")))
    n += 1
    own = m["property"] in m["detected_by"]
    rows.append(f"| {os.path.basename(d)} | {m['needs_to_manifest']} | {', '.join(m['detected_by']) or 'NOT DETECTED'}"
                f"{'' if own else ' (own check: no)'}{' - ' + m['note'] if m.get('note') else ''} |")
p = os.path.join(VERIF, "DESIGN.md")
s = open(p).read()
a, b = "<!-- SEEDED-TABLE-BEGIN -->", "<!-- SEEDED-TABLE-END -->"
block = a + "\n" + "\n".join(rows) + f"\n\n{n} seeded changes in total.\n" + b
if a in s:
    s = s[:s.index(a)] + block + s[s.index(b) + len(b):]
else:
    s = s.rstrip("\n") + "\n\n" + block + "\n"
open(p, "w").write(s)
print(n, "rows")

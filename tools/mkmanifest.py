#!/venv/bin/python
"""Regenerate /verif/MANIFEST.json from the SPEC of every check module that exists.

Properties without a check module are listed under not_applicable ("not claimed") with a reason.
"""
import importlib
import json
import os
import sys

VERIF = os.path.dirname(os.path.dirname(os.path.abspath(__file__)))
sys.path.insert(0, VERIF)
from bvmon import core  # noqa: E402

core.setup_paths()

props = [json.loads(l) for l in open(os.path.join(VERIF, "properties.jsonl"))]
checks = []
na = []
for p in props:
    pid = p["id"]
    path = os.path.join(VERIF, "bvmon", "checks", pid + ".py")
    if not os.path.exists(path):
        na.append({"property_id": pid, "reason": "not claimed yet: the monitor for this property has not been built "
                   "(runtime monitoring applies to it; see DESIGN.md section 5)"})
        continue
    spec = importlib.import_module("bvmon.checks." + pid).SPEC
    checks.append({
        "property_id": pid,
        "quick_cmd": f"./check {pid} --tier quick",
        "thorough_cmd": f"./check {pid} --tier thorough",
        "evidence_file": f"evidence/{pid}.json",
        "replay_cmd_template": f"./check {pid} --replay {{path}}",
        "engine": "bvmon",
        "level_claimed": {
            "category": spec["level"],
            "text": spec.get("level_text", spec["rule"]),
            "design_ref": f"DESIGN.md section 5 ({pid})",
        },
        "level_note": spec.get("level_note", "; ".join(spec.get("assumptions", []))),
        "technique": spec.get("technique", "runtime monitoring: reference-model oracle over observed executions"),
    })

manifest = {
    "version": 1,
    "setup_cmd": "./setup.sh",
    "hooks": {
        "guard": "BUMPVER_VERIF",
        "enable": "none needed: all monitors attach from outside (module attribute wrapping, sys.addaudithook, "
                  "sys.monitoring, fake git/hg executables first on PATH); checks import the working tree from /repo/src",
        "baseline_off_cmd": "tools/baseline.sh",
        "source_commits": [],
        "add_only": True,
    },
    "engines": [{
        "name": "bvmon",
        "path": "bvmon/",
        "serves_properties": [c["property_id"] for c in checks],
        "kind_free_text": "runtime monitoring: sharded workloads drive the real CLI in-process (and via subprocess); "
                          "oracles = independent reference models, byte snapshots, audit-hook write/spawn sets, "
                          "fake-VCS event logs, real git repositories, icontract contracts on inner functions",
    }],
    "checks": checks,
    "not_applicable": na,
    "notes": "exit 0 = held on what the monitors observed (KNOWN-FINDING lines possible), exit 1 = VIOLATION, "
             "exit 2 = INCONCLUSIVE (a deciding monitor observed nothing / watchdog); known findings: known_findings.json",
}
with open(os.path.join(VERIF, "MANIFEST.json"), "w") as f:
    json.dump(manifest, f, indent=1)
    f.write("\n")
print("claimed:", [c["property_id"] for c in checks], "not claimed:", [n["property_id"] for n in na])

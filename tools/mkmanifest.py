#!/venv/bin/python
"""Regenerate /verif/MANIFEST.json from the SPEC of every check module that exists.

Properties without a check module are listed under not_applicable ("not claimed") with a reason.
"""
import importlib
import json
import os
import sys

VERIF = os.path.dirname(os.path.dirname(os.path.abspath(__file__)))
sys.path.insert(0, VERIF)
from bvmon import core  # noqa: E402

core.setup_paths()

TECHNIQUE = {
    "C01": "runtime monitoring: invariant oracle (independent recogniser R1 + packaging PEP 440 order) on every observed test/update execution; byte snapshot + audit write-set on failure; K-order trace contract",
    "C02": "runtime monitoring: round-trip oracle through the real render/read functions against the independent renderer R1, exhaustive calendar sweep; CLI feedback chains",
    "C03": "runtime monitoring: byte-exact expectation of every file after update built from R1 (layouts proven unambiguous by R1); show read-back",
    "C04": "runtime monitoring: byte/inode/mtime snapshots, audit-hook write-set, K04 conservation contract (icontract), ASCII-locale subprocess differential",
    "C05": "runtime monitoring: history + executable reference model (R2 bump model, R4 PEP 440 gate) compared in both directions with observed `bumpver test` executions",
    "C06": "runtime monitoring with fault injection: every single fault position enumerated per base project; byte snapshots, audit write-set, fake-VCS event log",
    "C07": "runtime monitoring: K07 contract on the compiled regex AST (re parser) + behavioural oracle (self match span, near misses, rewrite, grep CLI); exhaustive short literals",
    "C08": "runtime monitoring of histories in real git repositories: consistency oracle over files/show/commits/tags after every step",
    "C09": "runtime monitoring: start version observed from show / update --dry against tag sets served by a fake git and built in real git; oracle = packaging max over R1-recognised tags per scope",
    "C10": "runtime monitoring with fault injection: totally ordered event log written by fake git/hg/hook executables (argv, env, file checksums) checked against the trace model R7; exhaustive configuration product in thorough",
    "C11": "runtime monitoring in real git repositories: exhaustive status x role x allow-dirty product; exit code, snapshot, commit count and commit content oracles",
    "C12": "runtime monitoring: K12 argv-construction contract via audit hook, NUL-exact argv log of fake git/hg, read-back of commit/tag objects from real git",
    "C13": "runtime monitoring: snapshot/audit/event-log around --dry; printed diff parsed and applied by an independent strict applier (R5) and compared with the real run",
    "C14": "runtime monitoring: monotonicity oracle (packaging + integer tuples) over all consecutive day pairs 2001..2099 through the real renderer and the CLI; mis-pairing refusal by test and config loader",
    "C15": "runtime monitoring: clause-by-clause oracle (packaging) on the text written for {pep440_version}, library, CLI and rewritten-file level",
    "C16": "runtime monitoring: K16 icontract postcondition on parse_version + order-law checker over all ordered pairs and sampled triples against packaging",
    "C17": "runtime monitoring: successor oracle (R3) and order/width invariants on successive `bumpver test` outputs; exhaustive start ids, long chains",
    "C18": "runtime monitoring: one abstract configuration serialised to 7 syntaxes; loaded Config, show and update --dry compared across siblings and with the model R8",
    "C19": "runtime monitoring: snapshots, audit write-set and show read-back around init --dry / init / init over the exhaustive layout product",
    "C20": "runtime monitoring: legacy reference model vs real v1 render/read; ordering oracle on test/update results and 1,000-step chains; engine-dispatch trace",
}

props = [json.loads(l) for l in open(os.path.join(VERIF, "properties.jsonl"))]
checks = []
na = []
for p in props:
    pid = p["id"]
    path = os.path.join(VERIF, "bvmon", "checks", pid + ".py")
    if not os.path.exists(path):
        na.append({"property_id": pid, "reason": "not claimed yet: the monitor for this property has not been built "
                   "(runtime monitoring applies to it; see DESIGN.md section 5)"})
        continue
    spec = importlib.import_module("bvmon.checks." + pid).SPEC
    checks.append({
        "property_id": pid,
        "quick_cmd": f"./check {pid} --tier quick",
        "thorough_cmd": f"./check {pid} --tier thorough",
        "evidence_file": f"evidence/{pid}.json",
        "replay_cmd_template": f"./check {pid} --replay {{path}}",
        "engine": "bvmon",
        "level_claimed": {
            "category": spec["level"],
            "text": spec.get("level_text", spec["rule"]),
            "design_ref": f"DESIGN.md section 5 ({pid})",
        },
        "level_note": spec.get("level_note", "; ".join(spec.get("assumptions", []))),
        "technique": spec.get("technique", TECHNIQUE[pid]),
    })

manifest = {
    "version": 1,
    "setup_cmd": "./setup.sh",
    "hooks": {
        "guard": "BUMPVER_VERIF",
        "enable": "none needed: all monitors attach from outside (module attribute wrapping, sys.addaudithook, "
                  "sys.monitoring, fake git/hg executables first on PATH); checks import the working tree from /repo/src",
        "baseline_off_cmd": "tools/baseline.sh",
        "source_commits": [],
        "add_only": True,
    },
    "engines": [{
        "name": "bvmon",
        "path": "bvmon/",
        "serves_properties": [c["property_id"] for c in checks],
        "kind_free_text": "runtime monitoring: sharded workloads drive the real CLI in-process (and via subprocess); "
                          "oracles = independent reference models, byte snapshots, audit-hook write/spawn sets, "
                          "fake-VCS event logs, real git repositories, icontract contracts on inner functions",
    }],
    "checks": checks,
    "not_applicable": na,
    "notes": "exit 0 = held on what the monitors observed (KNOWN-FINDING lines possible), exit 1 = VIOLATION, "
             "exit 2 = INCONCLUSIVE (a deciding monitor observed nothing / watchdog); known findings: known_findings.json",
}
with open(os.path.join(VERIF, "MANIFEST.json"), "w") as f:
    json.dump(manifest, f, indent=1)
    f.write("\n")
print("claimed:", [c["property_id"] for c in checks], "not claimed:", [n["property_id"] for n in na])

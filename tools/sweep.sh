#!/bin/sh
# Run every check of a tier for several seeds; print only verdict lines and anything alarming.
# usage: tools/sweep.sh <tier> <seed> [<seed> ...]
TIER=$1; shift
cd "$(dirname "$0")/.."
for SEED in "$@"; do
  for C in C01 C02 C03 C04 C05 C06 C07 C08 C09 C10 C11 C12 C13 C14 C15 C16 C17 C18 C19 C20; do
    OUT=$(./check $C --tier $TIER --seed $SEED 2>&1); RC=$?
    echo "$OUT" | grep -v "^KNOWN-FINDING" | grep -E "^VIOLATION|^  class|INCONCLUSIVE|verdict=" | head -8 | cut -c1-400
    [ $RC -ne 0 ] && echo "   ^^^ $C seed=$SEED exit=$RC"
  done
done
exit 0

#!/venv/bin/python
"""Line coverage of /repo/src/bumpver reached by the checks (sys.monitoring LINE events, BVMON_COVERAGE=1).

usage: tools/coverage.py run [C01 C02 ...]   # run quick checks in coverage mode (writes .build/cov/<id>.json)
       tools/coverage.py report              # merge and print uncovered executable lines per module
"""
import glob
import json
import os
import subprocess
import sys

VERIF = os.path.dirname(os.path.dirname(os.path.abspath(__file__)))
SRC = "/repo/src/bumpver"


def executable_lines(path):
    src = open(path).read()
    code = compile(src, path, "exec")
    lines = set()

    def walk(co):
        for _s, _e, ln in co.co_lines():
            if ln:
                lines.add(ln)
        for c in co.co_consts:
            if hasattr(c, "co_lines"):
                walk(c)

    walk(code)
    # drop docstring-only / def lines noise: keep everything, report is indicative
    return lines


def main():
    if sys.argv[1] == "run":
        props = sys.argv[2:] or [f"C{i:02d}" for i in range(1, 21)]
        env = dict(os.environ, BVMON_COVERAGE="1")
        for p in props:
            r = subprocess.run(["./check", p], cwd=VERIF, env=env, capture_output=True, text=True)
            print(r.stdout.strip().splitlines()[-1][:160])
        subprocess.run(["git", "-C", VERIF, "checkout", "--", "evidence"])
        return
    cov = set()
    for f in glob.glob(os.path.join(VERIF, ".build", "cov", "*.json")):
        cov.update(tuple(x) for x in json.load(open(f)))
    tot = hit = 0
    for path in sorted(glob.glob(os.path.join(SRC, "*.py"))):
        base = os.path.basename(path)
        ex = executable_lines(path)
        got = {ln for (b, ln) in cov if b == base}
        # module-level lines execute at import time before monitoring starts: count function bodies only
        src_lines = open(path).read().splitlines()
        missing = sorted(ln for ln in ex - got if src_lines[ln - 1].startswith((" ", "\t")))
        body = [ln for ln in ex if src_lines[ln - 1].startswith((" ", "\t"))]
        tot += len(body)
        hit += len(body) - len(missing)
        print(f"{base:32s} {len(body) - len(missing):4d}/{len(body):4d}  missing: {compress(missing)}")
    print(f"TOTAL function-body lines reached: {hit}/{tot} ({100.0 * hit / max(tot, 1):.1f}%)")


def compress(nums):
    out = []
    i = 0
    while i < len(nums):
        j = i
        while j + 1 < len(nums) and nums[j + 1] == nums[j] + 1:
            j += 1
        out.append(str(nums[i]) if i == j else f"{nums[i]}-{nums[j]}")
        i = j + 1
    return " ".join(out)


if __name__ == "__main__":
    main()

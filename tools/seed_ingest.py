#!/venv/bin/python
"""Confirm and ingest a seeded property-breaking change produced in a scratch worktree.

usage: tools/seed_ingest.py <property-id> <worktree> [--name N] [--needs "what it needs to manifest"] [--checks C01,C05]

Steps (all outside /repo; /repo is never modified):
  1. patch = `git diff -- src` of the worktree (must be non-empty and apply to /repo's HEAD)
  2. the repository's suite with the change: must match the baseline (500 passed / known failures)
  3. the demonstration: exits non-zero WITH the change, zero WITHOUT it
  4. our checks (quick tier) against the changed source tree (BUMPVER_SRC=<worktree>/src)
  5. everything is stored under /verif/seeded/<id>[-name]/ (patch.diff, demo.py, REPORT.md, meta.json)
"""
import argparse
import json
import os
import re
import shutil
import subprocess
import sys

VERIF = os.path.dirname(os.path.dirname(os.path.abspath(__file__)))


def sh(cmd, cwd=None, env=None, timeout=3600):
    p = subprocess.run(cmd, cwd=cwd, env=env, capture_output=True, text=True, timeout=timeout, shell=isinstance(cmd, str))
    return p.returncode, p.stdout + p.stderr


def main():
    ap = argparse.ArgumentParser()
    ap.add_argument("prop")
    ap.add_argument("worktree")
    ap.add_argument("--name", default="")
    ap.add_argument("--needs", default="")
    ap.add_argument("--checks", default="")
    ap.add_argument("--tier", default="quick")
    a = ap.parse_args()
    wt = os.path.abspath(a.worktree)
    rc, patch = sh(["git", "-C", wt, "diff", "--", "src"])
    if not patch.strip():
        sys.exit("no source change in worktree")
    env = dict(os.environ, PYTHONPATH=os.path.join(wt, "src"))
    env.pop("BUMPVER_SRC", None)
    # 2. suite with the change
    rc, out = sh([os.path.join(VERIF, "tools", "baseline.sh"), wt], env=env)
    sh(["git", "-C", wt, "checkout", "README.md"])
    suite = out.strip().splitlines()[0] if out.strip() else "?"
    suite_ok = rc == 0
    # 3. demo with / without
    demo = os.path.join(wt, "seed_demo", "demo.py")
    rc_with, out_with = sh(["/venv/bin/python", demo], cwd=wt, env=env, timeout=900)
    # NOTE: `git stash` is shared between worktrees - toggle the change with apply -R / apply instead
    pfile = os.path.join(wt, "seed_demo", ".ingest.patch")
    with open(pfile, "w") as f:
        f.write(patch)
    rcr, outr = sh(["git", "-C", wt, "apply", "-R", pfile])
    assert rcr == 0, outr
    try:
        rc_without, out_without = sh(["/venv/bin/python", demo], cwd=wt, env=env, timeout=900)
    finally:
        rca, outa = sh(["git", "-C", wt, "apply", pfile])
        assert rca == 0, outa
        os.unlink(pfile)
    rc2, patch2 = sh(["git", "-C", wt, "diff", "--", "src"])
    assert patch2 == patch, "worktree change was not restored"
    # 4. our checks against the changed tree
    checks = [c for c in a.checks.split(",") if c] or [a.prop]
    env2 = dict(os.environ, BUMPVER_SRC=os.path.join(wt, "src"))
    results = {}
    for c in checks:
        rc, out = sh(["./check", c, "--tier", a.tier], cwd=VERIF, env=env2, timeout=7200)
        lines = [ln for ln in out.splitlines() if not ln.startswith("KNOWN-FINDING")]
        classes = [ln.strip()[:300] for ln in lines if ln.strip().startswith("class=")]
        results[c] = {"exit": rc, "verdict_line": lines[-1][:300] if lines else "", "classes": classes[:6]}
    sh(["git", "-C", VERIF, "checkout", "--", "evidence"])
    name = a.prop + ("-" + a.name if a.name else "")
    dst = os.path.join(VERIF, "seeded", name)
    os.makedirs(dst, exist_ok=True)
    with open(os.path.join(dst, "patch.diff"), "w") as f:
        f.write(patch)
    shutil.copy(demo, os.path.join(dst, "demo.py"))
    rep = os.path.join(wt, "seed_demo", "REPORT.md")
    if os.path.exists(rep):
        shutil.copy(rep, os.path.join(dst, "REPORT.md"))
    meta = {
        "property": a.prop,
        "needs_to_manifest": a.needs,
        "confirmed": {
            "suite_with_change": suite, "suite_matches_baseline": suite_ok,
            "demo_exit_with_change": rc_with, "demo_exit_without_change": rc_without,
            "demo_output_with_change": out_with[-600:],
        },
        "how_confirmed": "tools/seed_ingest.py: suite and demo run in the scratch worktree with PYTHONPATH=<wt>/src; demo re-run "
                         "with the src change stashed; checks run with BUMPVER_SRC=<wt>/src (equivalent to applying "
                         "patch.diff to /repo, which stays untouched)",
        "our_checks": results,
        "detected_by": [c for c, r in results.items() if r["exit"] == 1],
    }
    with open(os.path.join(dst, "meta.json"), "w") as f:
        json.dump(meta, f, indent=1)
        f.write("\n")
    print(json.dumps(meta, indent=1))
    ok = suite_ok and rc_with != 0 and rc_without == 0
    print("KEEP" if ok else "REJECT (not a confirmed seeded change)", "| detected by:", meta["detected_by"])


if __name__ == "__main__":
    main()

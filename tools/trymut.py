#!/venv/bin/python
"""Try a property-breaking edit on a scratch copy of /repo/src (never on /repo) and run checks against it.

usage: tools/trymut.py <relfile> <old> <new> <check> [<check> ...]   (old must occur exactly once)
       tools/trymut.py --patch <diff> <check> ...
"""
import os
import shutil
import subprocess
import sys
import tempfile

args = sys.argv[1:]
tmp = tempfile.mkdtemp(prefix="bvmut-")
try:
    shutil.copytree("/repo/src", os.path.join(tmp, "src"))
    if args[0] == "--patch":
        diff, checks = args[1], args[2:]
        r = subprocess.run(["patch", "-p1", "-s", "-d", tmp, "-i", os.path.abspath(diff)])
        if r.returncode:
            sys.exit("patch failed")
    else:
        rel, old, new, checks = args[0], args[1], args[2], args[3:]
        p = os.path.join(tmp, "src", "bumpver", rel)
        s = open(p).read()
        old = old.encode().decode("unicode_escape")
        new = new.encode().decode("unicode_escape")
        assert s.count(old) == 1, f"{s.count(old)} occurrences of {old!r}"
        open(p, "w").write(s.replace(old, new))
    env = dict(os.environ, BUMPVER_SRC=os.path.join(tmp, "src"))
    for c in checks:
        r = subprocess.run(["./check", c], cwd="/verif", env=env, capture_output=True, text=True)
        lines = [l[:260] for l in r.stdout.splitlines() if not l.startswith("KNOWN-FINDING")]
        print(f"== {c}: exit {r.returncode}")
        print("\n".join(lines[-8:]))
finally:
    shutil.rmtree(tmp, ignore_errors=True)
    subprocess.run(["git", "-C", "/verif", "checkout", "--", "evidence"], capture_output=True)

#!/venv/bin/python
"""Does every repaired defect get reported again if it returns?

For each `fixed` entry of known_findings.json the repair commit is reversed on a scratch copy of /repo/src
(never in /repo) and the property's own check is run against that copy (BUMPVER_SRC). Expected: exit 1 with a
VIOLATION line. A reversal that no longer applies (later repairs rewrote the same lines) is reported as such.

usage: tools/fix_matrix.py [commit ...]      writes fix_matrix.json next to known_findings.json
"""
import json
import os
import shutil
import subprocess
import sys
import tempfile

VERIF = os.path.dirname(os.path.dirname(os.path.abspath(__file__)))
# repairs whose effect on the property's workload is also produced by a later repair: reversed together with it
ALSO_REVERSE = {"6b415dc": ["445b41f"]}   # aliased path entries: since 445b41f they are merged when the config is loaded


def main():
    only = set(sys.argv[1:])
    kf = json.load(open(os.path.join(VERIF, "known_findings.json")))
    entries = [e for v in kf.values() if isinstance(v, list) for e in v if isinstance(e, dict) and e.get("status") == "fixed"]
    rows = []
    seen = set()
    for e in entries:
        commit, prop = e["commit"], e["property"]
        if (commit, prop) in seen or (only and commit not in only):
            continue
        seen.add((commit, prop))
        tmp = tempfile.mkdtemp(prefix="bvfix-")
        try:
            shutil.copytree("/repo/src", os.path.join(tmp, "src"))
            for c in [commit] + ALSO_REVERSE.get(commit, []):
                diff = subprocess.run(["git", "-C", "/repo", "show", "--format=", c, "--", "src"], capture_output=True, text=True).stdout
                r = subprocess.run(["patch", "-R", "-p1", "-s", "-f", "-d", tmp], input=diff, capture_output=True, text=True)
                if r.returncode:
                    break
            row = {"property": prop, "commit": commit, "classifier": e.get("classifier"), "what": e.get("what")}
            if commit in ALSO_REVERSE:
                row["reversed_together_with"] = ALSO_REVERSE[commit]
            if r.returncode:
                row["result"] = "reversal-does-not-apply"
                row["detail"] = (r.stdout + r.stderr).strip()[:300]
            else:
                env = dict(os.environ, BUMPVER_SRC=os.path.join(tmp, "src"))
                p = subprocess.run(["./check", prop], cwd=VERIF, env=env, capture_output=True, text=True)
                lines = [ln for ln in p.stdout.splitlines() if not ln.startswith("KNOWN-FINDING")]
                row["exit"] = p.returncode
                row["result"] = {0: "NOT-REPORTED", 1: "reported-again", 2: "inconclusive"}.get(p.returncode, "error")
                row["classes"] = [ln.strip()[:240] for ln in lines if ln.strip().startswith("class=")][:4]
            rows.append(row)
            print(f"{prop} {commit} {row['result']:24s} {e.get('classifier')}", flush=True)
        finally:
            shutil.rmtree(tmp, ignore_errors=True)
    subprocess.run(["git", "-C", VERIF, "checkout", "--", "evidence"], capture_output=True)
    if not only:
        with open(os.path.join(VERIF, "fix_matrix.json"), "w") as f:
            json.dump({"note": "each repair commit reversed on a scratch copy; the property's own quick check must report it again",
                       "rows": rows}, f, indent=1)
            f.write("\n")
    bad = [r for r in rows if r["result"] in ("NOT-REPORTED", "inconclusive", "error")]
    print(f"{len(rows)} repairs, reported again: {sum(r['result'] == 'reported-again' for r in rows)}, "
          f"reversal not applicable: {sum(r['result'] == 'reversal-does-not-apply' for r in rows)}, not reported: {[(r['property'], r['commit']) for r in bad]}")


if __name__ == "__main__":
    main()

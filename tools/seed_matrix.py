#!/venv/bin/python
"""Re-run the checks against every stored seeded change (seeded/<id>/patch.diff) and refresh meta.json.

usage: tools/seed_matrix.py [--all-checks] [seed-dir-name ...]
Each patch is applied to a scratch copy of /repo/src (never to /repo); checks run through BUMPVER_SRC.
By default only the property's own check and the checks recorded as detecting it are run.
"""
import json
import os
import shutil
import subprocess
import sys
import tempfile

VERIF = os.path.dirname(os.path.dirname(os.path.abspath(__file__)))
ALL = [f"C{i:02d}" for i in range(1, 21)]


def main():
    args = sys.argv[1:]
    all_checks = "--all-checks" in args
    names = [a for a in args if not a.startswith("--")] or sorted(os.listdir(os.path.join(VERIF, "seeded")))
    rows = []
    for name in names:
        d = os.path.join(VERIF, "seeded", name)
        meta = json.load(open(os.path.join(d, "meta.json")))
        tmp = tempfile.mkdtemp(prefix="bvseed-")
        try:
            shutil.copytree("/repo/src", os.path.join(tmp, "src"))
            r = subprocess.run(["patch", "-p1", "-s", "-d", tmp, "-i", os.path.join(d, "patch.diff")], capture_output=True, text=True)
            if r.returncode:
                print(f"{name}: patch does not apply: {r.stdout} {r.stderr}")
                continue
            checks = ALL if all_checks else sorted(set([meta["property"]] + meta.get("detected_by", [])))
            env = dict(os.environ, BUMPVER_SRC=os.path.join(tmp, "src"))
            res = {}
            for c in checks:
                p = subprocess.run(["./check", c], cwd=VERIF, env=env, capture_output=True, text=True)
                lines = [ln for ln in p.stdout.splitlines() if not ln.startswith("KNOWN-FINDING")]
                res[c] = {"exit": p.returncode, "verdict_line": lines[-1][:300] if lines else "",
                          "classes": [ln.strip()[:300] for ln in lines if ln.strip().startswith("class=")][:6]}
            meta["our_checks"] = res
            meta["detected_by"] = [c for c, v in res.items() if v["exit"] == 1]
            with open(os.path.join(d, "meta.json"), "w") as f:
                json.dump(meta, f, indent=1)
                f.write("\n")
            own = meta["property"] in meta["detected_by"]
            rows.append((name, meta["detected_by"], own))
            print(f"{name:45s} own-check={'yes' if own else 'NO '} detected by {meta['detected_by']}", flush=True)
        finally:
            shutil.rmtree(tmp, ignore_errors=True)
    subprocess.run(["git", "-C", VERIF, "checkout", "--", "evidence"], capture_output=True)
    missed = [r[0] for r in rows if not r[1] and not json.load(open(os.path.join(VERIF, "seeded", r[0], "meta.json"))).get("equivalent_since")]
    print(f"{len(rows)} seeded changes, undetected: {missed}")


if __name__ == "__main__":
    main()

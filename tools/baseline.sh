#!/bin/sh
# Run the repository's own suite with the verification guard OFF and compare with BASELINE.json.
# usage: tools/baseline.sh [src-root]   (default /repo)
ROOT=${1:-/repo}
OUT=$(mktemp /tmp/bvmon-junit-XXXXXX.xml)
unset BUMPVER_VERIF
# a scratch worktree is tested against its own sources (the editable install points at /repo/src)
EXTRA=""
[ "$ROOT" != /repo ] && export PYTHONPATH="$ROOT/src" && EXTRA="--ignore=seed_demo"
cd "$ROOT" && /venv/bin/python -m pytest -ra -q -p no:cacheprovider --timeout=900 \
    --continue-on-collection-errors $EXTRA --junitxml="$OUT" >/dev/null 2>&1
/venv/bin/python - "$OUT" <<'PY'
import json, sys, xml.etree.ElementTree as ET
base = json.load(open('/root/.vp/BASELINE.json'))
t = ET.parse(sys.argv[1]).getroot()
npass = nfail = 0
failed = []
for tc in t.iter('testcase'):
    bad = any(c.tag in ('failure', 'error') for c in tc)
    skipped = any(c.tag == 'skipped' for c in tc)
    if bad:
        nfail += 1; failed.append(tc.get('classname', '') + '::' + tc.get('name', ''))
    elif not skipped:
        npass += 1
import re
norm = lambda s: re.sub(r'20\d\d(\d\d)?\.1001', 'DATE.1001', s)  # ids embed the current year/month
af = set(map(norm, base['always_fail']))
unexpected = [f for f in failed if norm(f) not in af]
print(f"passed={npass} failed={nfail} baseline_stable={base['n_stable']} unexpected_failures={len(unexpected)}")
for f in unexpected[:20]:
    print("  UNEXPECTED FAIL:", f)
sys.exit(0 if (npass >= base['n_stable'] and not unexpected) else 1)
PY
RC=$?
rm -f "$OUT"
[ "$ROOT" = /repo ] && git -C /repo checkout -- README.md 2>/dev/null
exit $RC

"""Contracts / trace monitors attached to the real functions from outside (module attribute wrapping).

They only RECORD (into the trace of the invocation in progress, or into counters); a firing contract never
changes the execution it observes. The checks turn recorded witnesses into violations afterwards.
"""
import functools

from bvmon import harness

_installed = set()
COUNTS = {}


def _count(name):
    COUNTS[name] = COUNTS.get(name, 0) + 1


def _wrap(module, attr, before=None, after=None):
    key = (module.__name__, attr)
    if key in _installed:
        return
    orig = getattr(module, attr)

    @functools.wraps(orig)
    def wrapper(*a, **kw):
        _count(f"{module.__name__.split('.')[-1]}.{attr}")
        if before:
            try:
                before(*a, **kw)
            except Exception:
                pass
        try:
            result = orig(*a, **kw)
        except BaseException as ex:
            if after:
                try:
                    after(a, kw, None, ex)
                except Exception:
                    pass
            raise
        if after:
            try:
                after(a, kw, result, None)
            except Exception:
                pass
        return result

    setattr(module, attr, wrapper)
    _installed.add(key)


def install_order_monitor():
    """K-order: gate -> (dirty check) -> rewrite_files -> commit, as a recorded event sequence."""
    cli = harness.bv()
    import bumpver.hooks as hooks
    import bumpver.v1rewrite as v1rewrite
    import bumpver.v2rewrite as v2rewrite
    import bumpver.vcs as vcs

    _wrap(cli, "_is_valid_version",
          after=lambda a, kw, r, ex: harness.trace_event("gate", new=a[2] if len(a) > 2 else kw.get("new_version"),
                                                         old=a[1] if len(a) > 1 else kw.get("old_version"),
                                                         ok=(r is True), exc=repr(ex) if ex else None))
    for mod, tag in ((v2rewrite, "v2"), (v1rewrite, "v1")):
        _wrap(mod, "rewrite_files",
              before=lambda *a, _t=tag, **kw: harness.trace_event("rewrite_enter", engine=_t),
              after=lambda a, kw, r, ex, _t=tag: harness.trace_event("rewrite_exit", engine=_t,
                                                                     exc=type(ex).__name__ if ex else None))
        _wrap(mod, "diff", before=lambda *a, _t=tag, **kw: harness.trace_event("diff", engine=_t))
    _wrap(vcs, "assert_not_dirty",
          after=lambda a, kw, r, ex: harness.trace_event("dirty_check", exc=type(ex).__name__ if ex else None))
    _wrap(vcs, "commit", before=lambda *a, **kw: harness.trace_event("vcs_commit_enter"))
    _wrap(hooks, "run", before=lambda *a, **kw: harness.trace_event("hook", path=a[0] if a else None))


def order_violations(trace, dry, new_version=None):
    """Event-order specification over one invocation's trace. Returns list of messages."""
    out = []
    names = [n for n, _ in trace]
    gate_ok = [i for i, (n, info) in enumerate(trace) if n == "gate" and info.get("ok")]
    for i, (n, info) in enumerate(trace):
        if n == "rewrite_enter":
            if dry:
                out.append("rewrite_files entered under --dry")
            if not any(g < i for g in gate_ok):
                out.append("rewrite_files entered before the version gate returned True")
            elif new_version is not None and not any(trace[g][1].get("new") == new_version for g in gate_ok if g < i):
                out.append("rewrite_files entered for a version the gate did not accept")
        if n == "vcs_commit_enter":
            if dry:
                out.append("vcs.commit entered under --dry")
            ex = [j for j, (m, inf) in enumerate(trace) if m == "rewrite_exit" and inf.get("exc") is None and j < i]
            if not ex:
                out.append("vcs.commit entered before rewrite_files returned")
        if n == "hook" and dry:
            out.append("hook run under --dry")
    if "dirty_check" in names and "rewrite_enter" in names and names.index("dirty_check") > names.index("rewrite_enter"):
        out.append("dirty check after rewrite_files")
    return out


# ---------------------------------------------------------------------------------------
# K16: version.parse_version agrees with packaging (type, canonical string); icontract postcondition
# that records and returns True.

K16_WITNESSES = []
K16_EVALS = [0]


def _k16_post(version, result):
    from packaging.version import InvalidVersion, Version
    K16_EVALS[0] += 1
    try:
        refv = Version(version)
    except InvalidVersion:
        refv = None
    is_pep = type(result).__name__ == "Version"
    if (refv is not None) != is_pep:
        if len(K16_WITNESSES) < 20:
            K16_WITNESSES.append(("validity", version, type(result).__name__, str(refv)))
    elif refv is not None and str(result) != str(refv):
        if len(K16_WITNESSES) < 20:
            K16_WITNESSES.append(("canonical-str", version, str(result), str(refv)))
    return True


class K16Broken(Exception):
    pass


def install_k16():
    import icontract
    import bumpver.version as bvv
    if ("bumpver.version", "parse_version") in _installed:
        return
    bvv.parse_version = icontract.ensure(_k16_post, error=K16Broken)(bvv.parse_version)
    _installed.add(("bumpver.version", "parse_version"))


# ---------------------------------------------------------------------------------------
# K07: structure of the compiled regex vs. the pattern AST of R1. Every character that R1 classifies as
# literal must be a LITERAL node with that code point (leading ^ / trailing $ -> AT nodes), parts must be
# named groups, optional groups 0..1 repeats; nothing else may appear.

def regex_structure_problems(pattern_text, regex_str, legacy=False):
    import re
    from bvmon import ref
    c = re._constants
    try:
        data = re._parser.parse(regex_str).data
    except re.error as ex:
        return [f"regex does not parse: {ex}"]
    if legacy:
        ast = legacy_ast(pattern_text)
    else:
        ast = ref.parse_pattern(pattern_text)
    first_is_caret = pattern_text.startswith("^")
    last_is_dollar = pattern_text.endswith("$") and not pattern_text.endswith("\\$")
    problems = []
    total = _count_lit_chars(ast)
    seen = [0]

    def walk(nodes, dat, depth):
        i = 0
        for n in nodes:
            if n[0] == "lit":
                for ch in n[1]:
                    seen[0] += 1
                    if i >= len(dat):
                        problems.append(f"literal {ch!r}: regex ends early")
                        return
                    op, av = dat[i]
                    if depth == 0 and seen[0] == 1 and first_is_caret and ch == "^":
                        want = (c.AT, c.AT_BEGINNING)
                    elif depth == 0 and seen[0] == total and last_is_dollar and ch == "$":
                        want = (c.AT, c.AT_END)
                    else:
                        want = (c.LITERAL, ord(ch))
                    if (op, av) != want:
                        problems.append(f"literal {ch!r} compiled to {op}:{str(av)[:60]} instead of {want[0]}:{want[1]}")
                        return
                    i += 1
            elif n[0] == "part":
                if i >= len(dat) or dat[i][0] is not c.SUBPATTERN or dat[i][1][0] is None:
                    problems.append(f"part {n[1]} is not a named group at node {i}: {str(dat[i] if i < len(dat) else None)[:80]}")
                    return
                i += 1
            else:
                if i >= len(dat) or dat[i][0] is not c.MAX_REPEAT or dat[i][1][0] != 0 or dat[i][1][1] != 1:
                    problems.append(f"optional group is not a 0..1 repeat at node {i}: {str(dat[i] if i < len(dat) else None)[:80]}")
                    return
                walk(n[1], dat[i][1][2].data if hasattr(dat[i][1][2], "data") else list(dat[i][1][2]), depth + 1)
                i += 1
        if i != len(dat) and not problems:
            problems.append(f"{len(dat) - i} extra regex node(s) after the pattern: {str(dat[i])[:80]}")

    walk(ast, data, 0)
    return problems


def _count_lit_chars(ast):
    n = 0
    for node in ast:
        if node[0] == "lit":
            n += len(node[1])
        elif node[0] == "opt":
            n += _count_lit_chars(node[1])
    return n


def legacy_ast(pattern_text):
    """{name} placeholders are parts, everything else is literal (no optional groups, no escapes)."""
    import re
    out = []
    pos = 0
    for m in re.finditer(r"\{([a-zA-Z_0-9]+)\}", pattern_text):
        if m.start() > pos:
            out.append(("lit", pattern_text[pos:m.start()]))
        out.append(("part", m.group(1)))
        pos = m.end()
    if pos < len(pattern_text):
        out.append(("lit", pattern_text[pos:]))
    return out


K07_LOG = []
K07_EVALS = [0]


def install_k07():
    """icontract postcondition on both _compile_pattern_re functions: record (pattern, regex) pairs."""
    import icontract
    harness.bv()
    import bumpver.v1patterns as v1p
    import bumpver.v2patterns as v2p

    def make(legacy):
        def _k07_post(normalized_pattern, result):
            K07_EVALS[0] += 1
            if len(K07_LOG) < 5000:
                K07_LOG.append((legacy, normalized_pattern, result.pattern))
            return True
        return _k07_post

    for mod, legacy in ((v2p, False), (v1p, True)):
        key = (mod.__name__, "_compile_pattern_re")
        if key not in _installed:
            mod._compile_pattern_re = icontract.ensure(make(legacy), error=K16Broken)(mod._compile_pattern_re)
            _installed.add(key)


def install_engine_monitor():
    """Which engine (legacy v1 / new v2) handled incr, version parsing and rewriting in an invocation."""
    harness.bv()
    import bumpver.v1rewrite as v1rewrite
    import bumpver.v1version as v1version
    import bumpver.v2rewrite as v2rewrite
    import bumpver.v2version as v2version
    for mod, tag in ((v1version, "v1"), (v2version, "v2")):
        _wrap(mod, "incr", before=lambda *a, _t=tag, **kw: harness.trace_event("engine", fn="incr", engine=_t))
        _wrap(mod, "parse_version_info",
              before=lambda *a, _t=tag, **kw: harness.trace_event("engine", fn="parse_version_info", engine=_t))
        _wrap(mod, "is_valid", before=lambda *a, _t=tag, **kw: harness.trace_event("engine", fn="is_valid", engine=_t))
    for mod, tag in ((v1rewrite, "v1"), (v2rewrite, "v2")):
        _wrap(mod, "rewrite_files",
              before=lambda *a, _t=tag, **kw: harness.trace_event("engine", fn="rewrite_files", engine=_t))
        _wrap(mod, "diff", before=lambda *a, _t=tag, **kw: harness.trace_event("engine", fn="diff", engine=_t))


def engines_used(trace):
    out = {}
    for n, info in trace:
        if n == "engine":
            out.setdefault(info["fn"], set()).add(info["engine"])
    return out


# ---------------------------------------------------------------------------------------
# K04: conservation contract on rewrite_lines (v1 and v2): same number of lines, and a line on which none
# of the file's patterns matches is returned unchanged.

K04_WITNESSES = []
K04_EVALS = [0]


def _k04_post(patterns, old_lines, result):
    K04_EVALS[0] += 1
    if len(result) != len(old_lines):
        if len(K04_WITNESSES) < 10:
            K04_WITNESSES.append(("line-count", len(old_lines), len(result)))
        return True
    for old, new in zip(old_lines, result):
        if old != new and not any(p.regexp.search(old) for p in patterns):
            if len(K04_WITNESSES) < 10:
                K04_WITNESSES.append(("unmatched-line-changed", old[:80], new[:80]))
            break
    return True


def install_k04():
    import icontract
    harness.bv()
    import bumpver.v1rewrite as v1rewrite
    import bumpver.v2rewrite as v2rewrite
    for mod in (v2rewrite, v1rewrite):
        key = (mod.__name__, "rewrite_lines")
        if key not in _installed:
            mod.rewrite_lines = icontract.ensure(_k04_post, error=K16Broken)(mod.rewrite_lines)
            _installed.add(key)


# ---------------------------------------------------------------------------------------
# K12: argv construction in vcs.VCSAPI.__call__: one argv element per template token, whatever the values
# contain. Observed argv comes from the audit hook (subprocess.Popen event), expected from the template.

K12_WITNESSES = []
K12_EVALS = [0]


def install_k12():
    harness.bv()
    import shlex
    import bumpver.vcs as vcs
    key = ("bumpver.vcs", "VCSAPI.__call__")
    if key in _installed:
        return
    orig = vcs.VCSAPI.__call__

    def wrapped(self, cmd_name, env=None, **kwargs):
        spawns = harness._STATE["spawns"]
        n0 = len(spawns) if spawns is not None else 0
        try:
            return orig(self, cmd_name, env=env, **kwargs)
        finally:
            try:
                K12_EVALS[0] += 1
                tmpl = self.subcommands[cmd_name]
                want = [tok.format(**kwargs) for tok in shlex.split(tmpl)]
                got = spawns[n0] if spawns is not None and len(spawns) > n0 else None
                if got != want and len(K12_WITNESSES) < 20:
                    K12_WITNESSES.append((cmd_name, want, got))
            except Exception:
                pass

    vcs.VCSAPI.__call__ = wrapped
    _installed.add(key)

"""Helpers shared by the project-level checks: model prediction of an `update`, argument building."""
import datetime as dt
import random

from packaging.version import InvalidVersion, Version

from bvmon import gen, harness, ref


def bvmods():
    harness.bv()
    import bumpver.v1patterns
    import bumpver.v1version
    import bumpver.v2patterns
    import bumpver.v2version
    import bumpver.version
    return {"v1patterns": bumpver.v1patterns, "v1version": bumpver.v1version, "v2patterns": bumpver.v2patterns,
            "v2version": bumpver.v2version, "version": bumpver.version}


def today():
    return bvmods()["version"].TODAY


def gate(old, new):
    """R4: 'accept' | 'refuse' | 'unknown' (both non-PEP 440)"""
    try:
        vo = Version(old)
    except InvalidVersion:
        vo = None
    try:
        vn = Version(new)
    except InvalidVersion:
        vn = None
    if vo is not None and vn is not None:
        return "accept" if vn > vo else "refuse"
    if vn is not None:
        return "accept"
    if vo is not None:
        return "refuse"
    return "unknown"


def model_bump(vp, old_text, flags, date, tdy):
    """(expected new text | None, reason). Applies flag applicability, R2 and the PEP 440 gate R4."""
    ast = ref.parse_pattern(vp)
    names = list(ref.parts_in(ast))
    for f, pn in (("major", "MAJOR"), ("minor", "MINOR"), ("patch", "PATCH")):
        if flags.get(f) and pn not in names:
            return None, "flag-not-applicable"
    try:
        exp = ref.bump(vp, old_text, date, tdy, **flags)
    except OverflowError:
        return None, "overflow"
    if exp is None:
        return None, "model-refuses"
    if ref.n_full_parses(ast, exp) != 1:
        return None, "ambiguous"
    g = gate(old_text, exp)
    if g != "accept":
        return None, "gate-" + g
    return exp, "ok"


def model_bump_ast(ast, old_text, flags, date, tdy):
    """model_bump for an already parsed pattern (pattern text is not needed by the model)"""
    names = list(ref.parts_in(ast))
    for f, pn in (("major", "MAJOR"), ("minor", "MINOR"), ("patch", "PATCH")):
        if flags.get(f) and pn not in names:
            return None, "flag-not-applicable"
    if not ref.week_pairing_ok(names):
        return None, "week-pairing"
    raw = ref.parse(ast, old_text)
    if raw is None:
        return None, "old-unreadable"
    try:
        cur = ref.bump_state(ast, ref.state_from_raw(raw, tdy), date, **flags)
    except OverflowError:
        return None, "overflow"
    if cur is None:
        return None, "model-refuses"
    exp = ref.render(ast, cur)
    if exp == "" or exp == old_text or ref.parse(ast, exp) is None:
        return None, "model-refuses"
    if ref.n_full_parses(ast, exp) != 1:
        return None, "ambiguous"
    g = gate(old_text, exp)
    if g != "accept":
        return None, "gate-" + g
    return exp, "ok"


def plan_update(R, vp, old_text, old_state, tdy, tries=10, want_success=True):
    """Pick (flags, date) for which the model predicts success (or any, if want_success is False)."""
    ast = ref.parse_pattern(vp)
    names = list(ref.parts_in(ast))
    base_date = None
    if old_state.get("year_y") and old_state.get("month") and old_state.get("dom"):
        try:
            base_date = dt.date(old_state["year_y"], old_state["month"], old_state["dom"])
        except ValueError:
            base_date = None
    if base_date is None:
        y = old_state.get("year_y") or old_state.get("year_g") or tdy.year
        base_date = dt.date(y, old_state.get("month") or 6, 15)
    last = None
    for _ in range(tries):
        fl = gen.gen_flags(R, names, applicable_only=True)
        if R.random() < 0.5 and not any(fl[k] for k in ("major", "minor", "patch")):
            for f, pn in (("patch", "PATCH"), ("minor", "MINOR"), ("major", "MAJOR")):
                if pn in names:
                    fl[f] = True
                    break
        try:
            date = base_date + dt.timedelta(R.choice(gen.DATE_OFFSETS))
        except OverflowError:
            date = base_date
        exp, why = model_bump(vp, old_text, fl, date, tdy)
        last = (fl, date, exp, why)
        if (exp is not None) == want_success:
            return last
    return last


def new_state_from_text(vp, text, tdy):
    """State bumpver rewrites files from: the announced version re-read through the pattern."""
    ast = ref.parse_pattern(vp)
    raw = ref.parse(ast, text)
    if raw is None:
        return None
    return ref.state_from_raw(raw, tdy)


def update_args(flags, date, extra=()):
    return ["update", "--no-fetch"] + gen.flags_to_args(flags, date) + list(extra)


def week53_involved(vp, *states):
    names = set(ref.parts_in(ref.parse_pattern(vp)))
    for st in states:
        if st is None:
            continue
        if (st.get("week_w") == 53 and names & {"WW", "0W"}) or (st.get("week_u") == 53 and names & {"UU", "0U"}):
            return True
    return False


def rng(seed):
    return random.Random(seed)

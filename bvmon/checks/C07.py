"""C07 - literal pattern text matches only itself.

Monitors: K07 (AST of the compiled regex: only LITERAL / anchor nodes for literal text; recorded by an
icontract postcondition on the real _compile_pattern_re) + behaviour oracle (the compiled recogniser finds its
own text at exactly its span and rejects near-misses) + rewrite oracle (literal text survives a rewrite) +
`bumpver grep` sample through the CLI.
"""
import itertools
import random

from bvmon import contracts, harness, ref

SPEC = dict(
    level="exploration",
    rule=("literal patterns over the 69 symbols {printable ASCII without upper-case and bare brackets} + {\\[, \\]}: "
          "ALL strings of length 1..2 (quick) / 1..3 (thorough), random strings up to length 40, each alone, with "
          "leading ^ / trailing $ anchors, wrapped around real parts (lit MAJOR.MINOR lit, lit[-TAG]lit) and through "
          "the legacy {..} compiler; non-trivial+distinct = distinct patterns containing >= 1 regex metacharacter"),
    assumptions=["Python's re parser (re._parser) is trusted to describe what a compiled regex means",
                 "an all-literal pattern with an empty body (only anchors) is outside the domain"],
    required=["k07_structure_checks", "triple_field_checks", "self_match_checks", "near_miss_checks", "rewrite_checks", "grep_cli_checks",
              "legacy_checks", "config_cli_checks"],
    anchors=[("v2patterns", "_compile_pattern_re"), ("v1patterns", "_compile_pattern_re"),
             ("v2patterns", "_replace_pattern_parts"), ("v2version", "_format_segment")],
    exhaustive={"quick": True, "thorough": True},
    exhaustive_note="all symbol strings up to length 2 (quick, 4,830) / 3 (thorough, 333,339) are enumerated; longer "
                    "strings are sampled",
)

SYMS = [chr(c) for c in range(0x20, 0x7F) if not chr(c).isupper() and chr(c) not in "[]"] + ["\\[", "\\]"]
META = set(".^$*+?{}()|\\[]-")


def sym_text(sym):
    return sym[1] if sym in ("\\[", "\\]") else sym


def cases(ctx):
    maxlen = 2 if ctx.quick else 3
    k = 0
    for n in range(1, maxlen + 1):
        for tup in itertools.product(range(len(SYMS)), repeat=n):
            if ctx.mine(k):
                yield {"syms": list(tup)}
            k += 1
    R = ctx.rng
    for _ in range(ctx.size(20000, 300000)):
        n = R.choice([3, 4, 4, 5, 6, 8, 12, 20, 40])
        if R.random() < 0.5:
            # heavy in metacharacters
            pool = [i for i, s in enumerate(SYMS) if s[-1] in META or s in ("\\[", "\\]")]
            yield {"syms": [R.choice(pool) if R.random() < 0.6 else R.randrange(len(SYMS)) for _ in range(n)]}
        else:
            yield {"syms": [R.randrange(len(SYMS)) for _ in range(n)]}


def mechanisms(syms):
    """known-finding mechanisms present in a symbol sequence"""
    m = set()
    for i, s in enumerate(syms):
        if s == "\\":
            m.add("backslash_before_non_bracket")
        if s == "|":
            m.add("pipe_not_escaped")
        if (s == "^" and i != 0) or (s == "$" and i != len(syms) - 1):
            m.add("inner_anchor_char")
    return m


def neutralise(syms, mech):
    out = []
    for i, s in enumerate(syms):
        if mech == "backslash_before_non_bracket" and s == "\\":
            s = "x"
        elif mech == "pipe_not_escaped" and s == "|":
            s = "x"
        elif mech == "inner_anchor_char" and ((s == "^" and i != 0) or (s == "$" and i != len(syms) - 1)):
            s = "x"
        out.append(s)
    return out


def evaluate(syms, mods, counters=None, deep=True):
    """All oracle parts for one symbol sequence. Returns list of (part, message)."""
    import re
    v2p, v1p, v2v, v2rw = mods
    problems = []
    cnt = counters if counters is not None else {}

    def c(name):
        cnt[name] = cnt.get(name, 0) + 1

    pattern = "".join(syms)
    if "{version}" in pattern or "{pep440_version}" in pattern:
        return None
    text = "".join(sym_text(s) for s in syms)
    lead = syms[0] == "^"
    trail = syms[-1] == "$"
    body_syms = syms[(1 if lead else 0):(len(syms) - 1 if trail and len(syms) > (1 if lead else 0) else len(syms))]
    body = "".join(sym_text(s) for s in body_syms)
    if not body:
        return None

    def compile_v2(p):
        # the path every search pattern of a project takes: compile_pattern(version_pattern, raw_pattern)
        # (normalisation + escaping + part substitution), not just the inner _compile_pattern_re
        try:
            return v2p.compile_pattern("MAJOR.MINOR.PATCH", p).regexp, None
        except Exception as ex:
            return None, ex

    # (0) both engines in one process, each handed the very same string (what `test`/`grep` do with a pattern
    #     argument): the engine that sees the string second must still compile it by its own rules
    if not lead and not trail:
        try:
            v1p.compile_pattern(pattern)
        except Exception:
            pass
        try:
            rx0 = v2p.compile_pattern(pattern).regexp
            c("cross_engine_checks")
            hay0 = "zq " + body + " qz"
            m0 = rx0.search(hay0)
            if m0 is None or m0.span() != (hay0.find(body), hay0.find(body) + len(body)):
                problems.append(("cross-engine", f"pattern {pattern!r} compiled by the legacy engine first, then by v2: "
                                                 f"v2 regex {rx0.pattern!r} on {hay0!r}: {m0.span() if m0 else None}"))
        except Exception as ex:
            problems.append(("compile", f"pattern {pattern!r} does not compile: {ex!r}"))
    # (1) all-literal pattern, with and without anchors
    for variant, p, t, a_lead, a_trail in (("plain", pattern, body, lead, trail),):
        rx, err = compile_v2(p)
        if rx is None:
            problems.append(("compile", f"pattern {p!r} does not compile: {err!r}"))
            continue
        c("k07_structure_checks")
        for pr in contracts.regex_structure_problems(p, rx.pattern):
            problems.append(("structure", f"pattern {p!r} -> regex {rx.pattern!r}: {pr}"))
        pre = "" if a_lead else "zq "
        post = "" if a_trail else " qz"
        hay = pre + t + post
        m = rx.search(hay)
        c("self_match_checks")
        first = hay.find(t) if not a_trail else hay.rfind(t)
        if m is None or m.span() != (first, first + len(t)):
            problems.append(("self-match", f"pattern {p!r} on {hay!r}: match={m.span() if m else None}, "
                                           f"expected {(first, first + len(t))}"))
        # anchors really anchor
        if a_lead:
            hay2 = "zq " + t + post
            if not hay2.startswith(t) and rx.search(hay2) is not None:
                problems.append(("anchor", f"leading ^ of {p!r} does not anchor"))
        if a_trail:
            hay2 = pre + t + " qz"
            if not hay2.endswith(t) and rx.search(hay2) is not None:
                problems.append(("anchor", f"trailing $ of {p!r} does not anchor"))
        # near misses
        misses = set()
        for i, ch in enumerate(t):
            for rep in ("x", "y", "7", " "):
                if rep != ch:
                    misses.add(t[:i] + rep + t[i + 1:])
                    break
            misses.add(t[:i] + t[i + 1:])
        for part in t.split("|"):
            misses.add(part)
        misses.add(re.sub(r"[^a-z0-9 ]", "x", t))
        misses.add("")
        for ms in misses:
            if t in (pre + ms + post):
                continue
            c("near_miss_checks")
            m2 = rx.search(pre + ms + post)
            if m2 is not None and len(m2.group(0)) > 0:
                problems.append(("near-miss", f"pattern {p!r} matches {pre + ms + post!r} at {m2.span()} "
                                              f"although the text {t!r} does not occur"))
                break
    if not deep:
        return problems
    # (2) wrapped around real parts: literal text must delimit, parts must still be read
    wrapped = pattern_w = None
    if not lead and not trail:
        pattern_w = pattern + "MAJOR.MINOR" + pattern
        wrapped = text + "12.3" + text
        digits_adjacent = text[-1:].isdigit() or text[:1].isdigit()
        rx, err = compile_v2(pattern_w)
        if rx is None:
            problems.append(("compile", f"pattern {pattern_w!r} does not compile: {err!r}"))
        elif not digits_adjacent:
            c("k07_structure_checks")
            for pr in contracts.regex_structure_problems(pattern_w, rx.pattern):
                problems.append(("structure", f"pattern {pattern_w!r} -> regex {rx.pattern!r}: {pr}"))
            hayw = "zq " + wrapped + " qz"
            m = rx.search(hayw)
            c("self_match_checks")
            if m is None or m.span() != (hayw.find(wrapped), hayw.find(wrapped) + len(wrapped)) or m.groupdict().get("major") != "12" \
                    or m.groupdict().get("minor") != "3":
                problems.append(("self-match", f"pattern {pattern_w!r} on {wrapped!r}: "
                                               f"{(m.span(), m.groupdict()) if m else None}"))
            # rewrite: the literal text survives, only the parts change
            try:
                vinfo = v2v.parse_version_info("13.0", "MAJOR.MINOR")
                pat_obj = v2p.compile_pattern("MAJOR.MINOR", pattern_w)
                new_lines = harness.call(v2rw.rewrite_lines, [pat_obj], vinfo, ["zq " + wrapped + " qz"])
                c("rewrite_checks")
                want = "zq " + text + "13.0" + text + " qz"
                if new_lines != [want]:
                    problems.append(("rewrite", f"pattern {pattern_w!r}: {'zq ' + wrapped + ' qz'!r} rewritten to "
                                                f"{new_lines!r}, expected {want!r}"))
            except Exception as ex:
                problems.append(("rewrite", f"pattern {pattern_w!r}: rewrite raised {type(ex).__name__}: {ex}"))
    # (2b) the same field several times in one pattern (parts with alternations inside): literal text between
    #      repeated parts must still delimit, and a line holding only a fragment must not match
    if not lead and not trail and not (text[-1:].isdigit() or text[:1].isdigit()):
        pattern_r = pattern + "0M.0D" + pattern + "0D/0M" + pattern + "TAG-TAG"
        text_r = text + "11.23" + text + "23/11" + text + "beta-beta"
        rx, err = compile_v2(pattern_r)
        if rx is None:
            problems.append(("compile", f"pattern {pattern_r!r} does not compile: {err!r}"))
        else:
            c("k07_structure_checks")
            for pr in contracts.regex_structure_problems(pattern_r, rx.pattern):
                problems.append(("structure", f"pattern {pattern_r!r} -> regex {rx.pattern!r}: {pr}"))
            hay = "zq " + text_r + " qz"
            m = rx.search(hay)
            c("self_match_checks")
            if m is None or m.span() != (hay.find(text_r), hay.find(text_r) + len(text_r)):
                problems.append(("self-match", f"pattern {pattern_r!r} on {hay!r}: {m.span() if m else None}"))
            for decoy in ("timeout = 25", "09", "x 12 y", "rc", "beta", text + "11.23" + text, "23/11" + text + "beta"):
                if text_r in decoy:
                    continue
                c("near_miss_checks")
                m2 = rx.search(decoy)
                if m2 is not None and len(m2.group(0)) > 0:
                    problems.append(("near-miss", f"pattern {pattern_r!r} matches the fragment {decoy!r} at {m2.span()}"))
                    break
    # (2c) one field THREE times (e.g. '{version} (pip: {pep440_version}), (c) YYYY' under a calendar version pattern)
    if not lead and not trail and not (text[-1:].isdigit() or text[:1].isdigit()):
        pattern_t = pattern + "0M.0M" + pattern + "0M"
        text_t = text + "11.11" + text + "11"
        rx, err = compile_v2(pattern_t)
        if rx is None:
            problems.append(("compile", f"pattern {pattern_t!r} (one field three times) does not compile: {err!r}"))
        else:
            c("triple_field_checks")
            hay = "zq " + text_t + " qz"
            m = rx.search(hay)
            if m is None or m.span() != (hay.find(text_t), hay.find(text_t) + len(text_t)):
                problems.append(("self-match", f"pattern {pattern_t!r} on {hay!r}: {m.span() if m else None}"))
    # (3) legacy compiler: alphabet minus braces, brackets are plain literals there
    if "{" not in pattern and "}" not in pattern and not lead and not trail:
        lp = pattern + "{MAJOR}.{MINOR}"
        lt = pattern + "12.3"   # in legacy patterns a backslash and brackets are literal characters
        try:
            try:
                v2p.compile_pattern(lp)       # v2 first, then the legacy engine on the same string
            except Exception:
                pass
            rxc = v1p.compile_pattern(lp).regexp
            hayc = "zq " + lt
            mc = rxc.search(hayc)
            if mc is None or mc.span() != (hayc.find(lt), hayc.find(lt) + len(lt)):
                problems.append(("cross-engine", f"legacy pattern {lp!r} compiled by v2 first, then by the legacy engine: "
                                                 f"regex {rxc.pattern!r} on {hayc!r}: {mc.span() if mc else None}"))
            rx = v1p._compile_pattern_re(lp)
            c("legacy_checks")
            for pr in contracts.regex_structure_problems(lp, rx.pattern, legacy=True):
                problems.append(("legacy-structure", f"legacy pattern {lp!r} -> {rx.pattern!r}: {pr}"))
            if not lead:
                hayl = "zq " + lt
                m = rx.search(hayl)
                if m is None or m.span() != (hayl.find(lt), hayl.find(lt) + len(lt)):
                    problems.append(("legacy-self-match", f"legacy pattern {lp!r} on {'zq ' + lt!r}: {m.span() if m else None}"))
        except Exception as ex:
            problems.append(("legacy-compile", f"legacy pattern {lp!r}: {ex!r}"))
    return problems


def classify(syms, mods, problems):
    """Smallest set of listed mechanisms whose neutralisation (offending symbols replaced by 'x') makes every
    oracle part pass; if none does, the failure is not explained by them."""
    mechs = sorted(mechanisms(syms))
    for k in range(1, len(mechs) + 1):
        for subset in itertools.combinations(mechs, k):
            clean = list(syms)
            for mech in subset:
                clean = neutralise(clean, mech)
            rest = evaluate(clean, mods, deep=True)
            if rest is not None and not rest:
                return "+".join(subset)
    return "other:" + problems[0][0]


def run_case(ctx, case):
    harness.bv()
    import bumpver.v1patterns as v1p
    import bumpver.v2patterns as v2p
    import bumpver.v2rewrite as v2rw
    import bumpver.v2version as v2v
    contracts.install_k07()
    mods = (v2p, v1p, v2v, v2rw)
    syms = [SYMS[i] if isinstance(i, int) else i for i in case["syms"]]
    cnt = {}
    problems = evaluate(syms, mods, cnt, deep=True)
    for k, v in cnt.items():
        ctx.counters[k] += v
    if problems is None:
        raise harness.Skip("empty-body")
    pattern = "".join(syms)
    has_meta = any(s[-1] in META or len(s) == 2 for s in syms)
    ctx.evaluated(("p", pattern) if has_meta else None,
                  sample={"pattern": pattern, "text": "".join(sym_text(s) for s in syms)} if has_meta else None)
    if problems:
        cls = classify(syms, mods, problems)
        ctx.violation(cls, "; ".join(m for _p, m in problems[:3]), case={"syms": syms})
    # CLI sample
    if ctx.rng.random() < (0.02 if len(syms) <= 3 else 0.1) and not mechanisms(syms):
        grep_cli(ctx, syms)
    # the same pattern configured through setup.cfg / bumpver.toml and used by `update`
    if not mechanisms(syms) and (ctx.rng.random() < 0.03 or ("%" in syms and ctx.rng.random() < 0.5)):
        config_cli(ctx, syms)


def config_cli(ctx, syms):
    """The literal text as part of a file pattern in a config file (INI and TOML): `update` rewrites exactly the
    lines that contain the text."""
    from bvmon.projects import toml_str
    pattern = "".join(syms)
    text = "".join(sym_text(s) for s in syms)
    if text != text.strip() or not text or text[0] in "#;[" or "=" in text[:1] or text[-1:].isdigit() or syms[0] == "^" \
            or syms[-1] == "$" or "{" in text or "}" in text:
        return
    miss = text[:-1] + ("x" if text[-1] != "x" else "y")
    if text in miss + " 1.2.3" or text[:1].isdigit():
        return
    raw = pattern + " MAJOR.MINOR.PATCH"
    notes = f"first\n{text} 1.2.3\nmiddle\n{miss} 1.2.3\nlast\n"
    for fmt in ("cfg", "toml"):
        if fmt == "toml" and (text[0] in ',"' or "\\" in text):
            continue   # the third-party `toml` library mis-reads array strings that start with ',' or an escaped quote
        if fmt == "cfg":
            cfg = ("[bumpver]\ncurrent_version = 1.2.3\nversion_pattern = MAJOR.MINOR.PATCH\n\n[bumpver:file_patterns]\n"
                   f"setup.cfg =\n    current_version = {{version}}\nnotes.txt =\n    {raw}\n")
            files = {"setup.cfg": cfg, "notes.txt": notes}
        else:
            cfg = ('[bumpver]\ncurrent_version = "1.2.3"\nversion_pattern = "MAJOR.MINOR.PATCH"\n\n[bumpver.file_patterns]\n'
                   '"bumpver.toml" = [\'current_version = "{version}"\']\n' + f'"notes.txt" = [{toml_str(raw)}]\n')
            files = {"bumpver.toml": cfg, "notes.txt": notes}
        d = harness.new_project(files)
        try:
            res = harness.invoke(["update", "--patch", "--no-fetch"], cwd=d)
            ctx.count("config_cli_checks")
            got = harness.snapshot(d)["notes.txt"].decode("utf-8")
            want = f"first\n{text} 1.2.4\nmiddle\n{miss} 1.2.3\nlast\n"
            if res.crash or res.exit_code != 0 or got != want:
                ctx.violation("other:pattern_from_config_file_not_literal", f"{fmt} config, file pattern {raw!r}: exit "
                              f"{res.exit_code} {res.crash or res.errors()[-2:]}; notes.txt = {got!r}, expected {want!r}",
                              case={"syms": syms})
        finally:
            harness.rm_dir(d)


def grep_cli(ctx, syms):
    pattern = "".join(syms)
    text = "".join(sym_text(s) for s in syms)
    lead, trail = syms[0] == "^", syms[-1] == "$"
    body = text[(1 if lead else 0):(len(text) - 1 if trail else len(text))]
    if not body or body != body.strip() or "\n" in body:
        return
    R = ctx.rng
    # hits in the middle, on the very first and on the very last line of the file
    hit_lines = R.choice([[3, 9], [3, 9], [0, 5], [0], [13], [0, 13], []])
    lines = []
    for i in range(14):
        if i in hit_lines:
            lines.append(("" if lead else "foo ") + body + ("" if trail else " bar"))
        else:
            miss = body[:-1] + ("x" if body[-1] != "x" else "y")
            lines.append("foo " + (miss if body not in ("foo " + miss + " bar") else "") + " bar")
    if any(body in ln for i, ln in enumerate(lines) if i not in hit_lines):
        return
    if (lead or trail) and not hit_lines:
        # the text occurs, but not where the anchor wants it: still no match
        lines[6] = "zz " + body + " zz"
    final_nl = R.random() < 0.6
    if not final_nl:
        ctx.count("grep_cli_files_without_final_newline")
    d = harness.new_project({"f.txt": "\n".join(lines) + ("\n" if final_nl else "")})
    try:
        # anchors mean the same for grep as for update (README: grep is there to test configuration entries,
        # its first example entry is '^__version__ = "{version}"$'): start / end of a LINE
        res = harness.invoke(["grep", "--", pattern, "f.txt"], cwd=d)
        ctx.count("grep_cli_checks")
        if lead or trail:
            ctx.count("grep_cli_anchored_checks")
        if res.crash:
            ctx.violation("other:grep_crash", f"grep {pattern!r}: {res.crash}", case={"syms": syms})
            return
        if (res.exit_code == 0) != bool(hit_lines):
            ctx.violation("grep_anchor_is_not_per_line" if (lead or trail) else "other:grep_exit_code",
                          f"grep {pattern!r}: exit {res.exit_code} with {len(hit_lines)} "
                          f"matching lines (of 14)", case={"syms": syms}, observed=res.brief())
            return
        for i in hit_lines:
            want = f"{i + 1:>4}: {lines[i]}"
            if want not in res.stdout.split("\n"):
                ctx.violation("grep_anchor_is_not_per_line" if (lead or trail) else "other:grep_line_missing",
                              f"grep {pattern!r}: line {want!r} not reported",
                              case={"syms": syms}, observed=res.brief())
                break
    finally:
        harness.rm_dir(d)

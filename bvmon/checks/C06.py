"""C06 - a failed update leaves the project untouched (fault enumeration).

For each generated base project, EVERY single fault is injected in turn - each (file, pattern) occurrence
destroyed, each configured file removed, the new version rejected - for several orders of the file entries;
first `update --dry`, then the real `update`. Monitors: byte snapshot of all files, audit write-set, fake-VCS
event log (no add/commit/tag/push/hook), exit codes.
"""
import itertools
import os
import random

from bvmon import harness, projects, updates

SPEC = dict(
    level="fault_enumeration",
    rule=("base projects (1..5 files x 1..3 patterns, v2 and legacy, config entry explicit or implicit, commit off or "
          "on with a fake git) x file-entry orders (all permutations up to 4 entries in thorough, 2 sampled in quick; "
          "sampled for 5) x EVERY single fault: each non-config (file, pattern) occurrence destroyed, each file "
          "removed, --set-version lower / malformed, an automatic increment that the version gate rejects (tag downgrade); each fault = one `--dry` run + one real run; non-trivial+distinct "
          "= distinct (n files, fault kind, position of the faulty file in the write order, engine, commit) tuples"),
    assumptions=["destroying an occurrence = overwriting it with '~' characters (cannot match any pattern)",
                 "a traceback exit counts as 'exits non-zero'; what is asserted is that nothing changed"],
    required=["fault_runs", "faults_at_later_write_position", "fault:pattern", "fault:file-removed", "fault:version",
              "fault:version:auto-increment-rejected",
              "engine:v2", "engine:v1", "commit_on_runs", "dry_reported_error", "fault:already-new", "fault:shadowed", "faults_in_an_extra_pattern_of_the_config_file"],
    anchors=[("v2rewrite", "rewrite_files"), ("v1rewrite", "rewrite_files"), ("rewrite", "iter_path_patterns_items"),
             ("cli", "_update"), ("cli", "_try_update")],
    exhaustive={"quick": False, "thorough": False},
    exhaustive_note="fault positions are enumerated completely per base project and order; bases and orders are sampled",
)


def cases(ctx):
    n = ctx.size(96, 4000)
    for i in range(n):
        yield {"pseed": ctx.rng.getrandbits(48), "legacy": i % 4 == 3, "commit": i % 3 == 0,
               "perms": 2 if ctx.quick else 24}


def run_case(ctx, case):
    R = random.Random(case["pseed"])
    mods = updates.bvmods()
    tdy = updates.today()
    commit_cfg = {"commit": True, "tag": R.random() < 0.5, "push": False} if case["commit"] else None
    if commit_cfg and commit_cfg["tag"] and R.random() < 0.5:
        commit_cfg["push"] = True
    if case["legacy"]:
        proj, why = projects.gen_legacy_project(R, mods)
        if commit_cfg:
            proj.meta["cfg_extra"] = commit_cfg
            proj = projects.reorder_entries(proj, list(range(len(proj.entries))), R)
    else:
        proj, why = projects.gen_project(R, mods, tdy, eol_choices=("\n", "\r\n"), max_patterns=3, globs=False,
                                         cfg_fmt="toml", commit_cfg=commit_cfg)
    if proj is None:
        raise harness.Skip(why)
    # an update that would succeed without a fault
    if case["legacy"]:
        good_args = ["update", "--no-fetch", "--date", "2100-01-01"] + (["--patch"] if "semver" in proj.vp or "MAJOR" in proj.vp else [])
    else:
        fl, date, exp, why = updates.plan_update(R, proj.vp, proj.cur_text, proj.cur_state, tdy)
        if exp is None:
            raise harness.Skip("no-successful-update-planned")
        good_args = updates.update_args(fl, date)
    n_entries = len(proj.entries)
    perms = list(itertools.permutations(range(n_entries)))
    R.shuffle(perms)
    perms = perms[:case["perms"]] if n_entries <= 4 else perms[:min(case["perms"], 60)]
    first = True
    for perm in perms:
        q = projects.reorder_entries(proj, list(perm), R)
        if first:
            # sanity: without a fault the update succeeds (otherwise the base is not usable)
            ok = run_one(ctx, case, q, good_args, None, expect_fail=False)
            first = False
            if not ok:
                ctx.count("discarded:base-update-fails")
                return
        faults = []
        seen_fp = set()
        for pl in q.plants:
            # (every pattern of every other file, and a pattern the config file lists for a further line of itself)
            if (pl.file != q.cfg_name or "released as" in pl.raw) and (pl.file, pl.raw) not in seen_fp:
                if pl.file == q.cfg_name:
                    ctx.count("faults_in_an_extra_pattern_of_the_config_file")
                seen_fp.add((pl.file, pl.raw))
                faults.append(("pattern", pl))
        for fn in q.files:
            if fn != q.cfg_name:
                faults.append(("file-removed", fn))
        faults.append(("version", "lower"))
        faults.append(("version", "malformed"))
        auto = auto_rejected_args(R, q, tdy) if not q.legacy else None
        if auto:
            faults.append(("version", ("auto", auto)))
        if not q.legacy:
            for fn in q.files:
                sh = shadowed_variant(q, fn, mods, R)
                if sh is not None:
                    faults.append(("shadowed", (fn, sh)))
        for fault in faults:
            run_one(ctx, case, q if fault[0] != "shadowed" else fault[1][1], good_args,
                    fault if fault[0] != "shadowed" else ("shadowed", fault[1][0]), expect_fail=True)
        if perm == perms[0]:
            # one file already shows the new version (edited by hand, or left over from an interrupted run): whatever
            # --dry says about it, the real run has to agree
            for fn in q.files:
                if fn != q.cfg_name:
                    run_one(ctx, case, q, good_args, ("already-new", fn), expect_fail=False)


def auto_rejected_args(R, q, tdy):
    """flags for which the model says: a new version is computed, but it is NOT greater (tag downgrade without
    any numeric change) - the update must be refused like a bad --set-version"""
    from bvmon import gen, ref
    ast = ref.parse_pattern(q.vp)
    names = list(ref.parts_in(ast))
    if not any(n in names for n in ("TAG", "PYTAG")):
        return None
    i = ref.TAG_ORDER.index("rc" if q.cur_state["tag"] == "preview" else q.cur_state["tag"])
    for lower in ref.TAG_ORDER[:i]:
        fl = dict(major=False, minor=False, patch=False, tag=lower, tag_num=False, pin_increments=True, pin_date=True)
        exp, why = updates.model_bump(q.vp, q.cur_text, fl, tdy, tdy)
        if exp is None and why == "gate-refuse":
            ctx_args = ["update", "--no-fetch"] + gen.flags_to_args(fl, None)
            return ctx_args
    return None


def shadowed_variant(q, fn, mods, R):
    """The project with one more pattern for `fn`, listed last, whose every match lies inside the occurrence of an
    earlier pattern of that file (a bare `{version}` next to `rev {version};`): it can never be found
    ("Possible greedy pattern"), so the update has to fail - before anything is written."""
    if fn == q.cfg_name:
        return None
    mine = [pl for pl in q.plants if pl.file == fn]
    raws = {pl.raw for pl in mine}
    cand = [pl for pl in mine if pl.kind == "version" and pl.raw != "{version}" and "{version}" in pl.raw]
    if not cand or "{version}" in raws:
        return None
    sh = projects.with_extra_pattern(q, fn, "{version}", R)
    if sh is None:
        return None
    try:
        rx = mods["v2patterns"].compile_pattern(q.vp, "{version}").regexp
    except Exception:
        return None
    text = q.files[fn]
    for m in rx.finditer(text):
        if m.group(0) and not any(pl.start <= m.end() and m.start() <= pl.end for pl in mine):
            return None     # a free match exists somewhere: not a fault
    return sh


def run_one(ctx, case, q, good_args, fault, expect_fail):
    files = q.encoded()
    args = list(good_args)
    pos = None
    if fault:
        kind, what = fault
        if kind == "pattern":
            # the pattern is made non-matching: EVERY occurrence of it in that file is destroyed
            t = q.files[what.file]
            for pl in q.plants:
                if pl.file == what.file and pl.raw == what.raw:
                    t = t[:pl.start] + "~" * (pl.end - pl.start) + t[pl.end:]
                    if sum(1 for x in q.plants if x.file == what.file and x.raw != what.raw) and \
                            sum(1 for x in q.plants if x.file == what.file) > len({x.raw for x in q.plants if x.file == what.file}):
                        ctx.count("faults_in_files_with_repeated_sibling_occurrences")
            files[what.file] = t.encode("utf-8")
            pos = q.write_order.index(what.file)
        elif kind == "file-removed":
            del files[what]
            pos = q.write_order.index(what)
        elif kind == "shadowed":
            pos = q.write_order.index(what)     # the config of q already lists the shadowed pattern
        elif kind == "already-new":
            upd = updated_files(q, good_args)
            if upd is None or upd.get(what) == files[what]:
                return None
            files[what] = upd[what]
        elif kind == "version" and isinstance(what, tuple):
            args = what[1]   # an AUTOMATIC increment whose result the version gate rejects
        elif kind == "version":
            args = ["update", "--no-fetch", "--set-version",
                    (q.cur_text if what == "lower" else q.cur_text + "~junk")]
    d = harness.new_project(files)
    fake = None
    env = None
    try:
        if case["commit"]:
            fake = harness.FakeVCS(d, "git")
            fake.set_out("status", "")
            env = fake.env
        before = harness.snapshot(d)
        dres = harness.invoke(args + ["--dry"], cwd=d, env=env)
        mid = harness.snapshot(d)
        if mid != before:
            ctx.violation("other:dry_run_changed_files", f"{args} --dry changed {harness.diff_snapshots(before, mid)}",
                          observed=desc(q, fault, dres))
        if fake:
            fake.reset()
        res = harness.invoke(args, cwd=d, env=env)
        after = harness.snapshot(d)
        if not fault:
            return res.exit_code == 0
        kind = fault[0]
        if kind == "already-new":
            ctx.count("fault:already-new")
            changed = harness.diff_snapshots(before, after)
            ctx.evaluated((len(q.files) - 1, kind, dres.exit_code != 0, "v1" if q.legacy else "v2", bool(case["commit"])))
            if dres.exit_code != 0 and (changed or res.exit_code == 0):
                cls = "other:dry_reports_error_but_real_run_changes_files"
                if any("No patterns matched for file" in e and fault[1] in e for e in dres.errors()) and res.exit_code == 0:
                    cls = "dry_rejects_file_already_at_new_version"
                ctx.violation(cls, f"{args}: {fault[1]} already shows the new version; --dry exits {dres.exit_code} "
                              f"{dres.errors()[-1:]}, the real run exits {res.exit_code} and changes {changed}",
                              observed=desc(q, fault, res))
            return None
        ctx.count("fault_runs")
        ctx.count("fault:" + kind)
        if kind == "version" and isinstance(fault[1], tuple):
            ctx.count("fault:version:auto-increment-rejected")
        ctx.count("engine:" + ("v1" if q.legacy else "v2"))
        if case["commit"]:
            ctx.count("commit_on_runs")
        if pos is not None and pos > 0:
            ctx.count("faults_at_later_write_position")
        if dres.exit_code != 0:
            ctx.count("dry_reported_error")
        wpos = "na" if pos is None else ("first" if pos == 0 else "last" if pos == len(q.write_order) - 1 else "mid")
        ctx.evaluated((len(q.files) - 1, kind, wpos, "v1" if q.legacy else "v2", bool(case["commit"])),
                      sample={"argv": args, "fault": [kind, str(fault[1] if kind != "pattern" else fault[1].as_dict())[:200]],
                              "write_order": q.write_order, "exit": res.exit_code})
        changed = harness.diff_snapshots(before, after)
        wset = harness.writes_inside(res, d)
        if res.exit_code == 0:
            ctx.violation("other:update_succeeds_despite_fault", f"{args} fault={kind}: exit 0", observed=desc(q, fault, res))
            return False
        if changed or wset:
            cls = "files_written_before_all_validated" if (kind in ("pattern", "file-removed") and pos and pos > 0) \
                else "other:failed_update_changed_files"
            ctx.violation(cls, f"{args} fault={kind} at write position {pos}: exit {res.exit_code} but changed={changed} "
                               f"write-set={sorted(wset)}", observed=desc(q, fault, res))
        if dres.exit_code != 0 and changed:
            ctx.count("dry_reported_error_but_real_run_changed_files")
        if fake:
            muts = [harness.mutating_kind(e) for e in fake.events()]
            muts = [m for m in muts if m and m != "fetch"]
            if muts:
                ctx.violation("other:vcs_mutation_after_failed_rewrite", f"{args} fault={kind}: {muts}",
                              observed=desc(q, fault, res))
        return False
    finally:
        harness.rm_dir(d)
        if fake:
            fake.destroy()


def updated_files(q, good_args):
    """bytes of every file after the fault-free update (computed once per project by running it in a scratch copy;
    cached on the project object itself - an id()-keyed cache can hand out another project's files)"""
    if not hasattr(q, "_updated_files"):
        d = harness.new_project(q.encoded())
        try:
            r = harness.invoke(list(good_args), cwd=d, env={"PATH": "/nonexistent"})
            q._updated_files = harness.snapshot(d) if r.exit_code == 0 else None
        finally:
            harness.rm_dir(d)
    return q._updated_files


def desc(q, fault, res):
    f = None
    if fault:
        f = [fault[0], fault[1].as_dict() if fault[0] == "pattern" else fault[1]]
    return {"project": q.describe(), "write_order": q.write_order, "fault": f, "res": res.brief()}

"""C14 - calendar versions never run backwards as the date advances.

Monitors: (a) library level, exhaustive: for every coherent calendar pattern and every consecutive day pair
2001-01-01..2099-12-31 the real rendering (cal_info + format_version) of the later day is never lower, as PEP 440
version (packaging) and as integer tuple; (b) CLI: `bumpver test BASE P --date D` for successive D (New-Year
windows in quick, every day in thorough); (c) bump level: random (old date, new date) pairs incl. new < old:
calendar parts never move backwards; (d) every year/week mis-pairing is refused by `test` and by the config
loader (`show`), and R1 exhibits a day pair on which it would run backwards.
"""
import datetime as dt
import random

from packaging.version import InvalidVersion, Version

from bvmon import harness, projects, ref

YEARS = ["YYYY", "YY", "0Y"]
SUBS = ["MM", "0M", "MM.DD", "0M.0D", "MM.0D", "0M.DD", "JJJ", "00J", "Q", "Q.MM", "Q.0M.0D", "WW", "0W", "UU", "0U"]
ISO_Y = ["GGGG", "GG", "0G"]
ISO_W = ["VV", "0V"]
GLUED = ["YYYY0M", "YYYY0M0D", "YYYY00J", "0Y0M", "0Y0M0D", "GGGG0V", "0G0V", "YYYY0W", "0Y0U", "YYYY.0M0D"]
# coherent pairings whose separator is a literal upper-case letter (ISO 8601 basic notation `2020W05`, `2020M02`): the
# texts are not PEP 440 versions, their order is judged on the integer tuples R1 reads back
LETTERED = ["YYYYW0W", "YYYYM0M", "YYYYU0U", "0YW0W", "YYYY.0MD0D", "GGGGW0V", "YYYYD00J", "YYYY-W0W"]


def coherent_patterns():
    out = [f"{y}.{s}" for y in YEARS for s in SUBS] + [f"{y}.{w}" for y in ISO_Y for w in ISO_W] + GLUED
    return out


def mispaired_patterns():
    return [f"{y}.{w}" for y in YEARS for w in ISO_W] + [f"{y}.{w}" for y in ISO_Y for w in ("WW", "0W", "UU", "0U")]


SPEC = dict(
    level="exploration",
    rule=("coherent patterns = {YYYY,YY,0Y} x {MM,0M,MM.DD,0M.0D,MM.0D,0M.DD,JJJ,00J,Q,Q.MM,Q.0M.0D,WW,0W,UU,0U} + "
          "{GGGG,GG,0G} x {VV,0V} + 10 glued padded forms (61 patterns) x ALL 36,158 consecutive day pairs "
          "2001-01-01..2099-12-31 through the real renderer; CLI sweep over New-Year windows (quick) / every day "
          "(thorough); random bump pairs; all 18 mis-pairings; non-trivial+distinct = distinct (pattern, weekday of "
          "Jan 1, leap year?) classes of year boundaries crossed + distinct mis-pairings + bump outcome classes"),
    assumptions=["packaging decides PEP 440 order of rendered texts; R1 supplies the integer tuples",
                 "a refusal (e.g. week 53, known finding of C02/C05) is not a backwards step"],
    required=["day_pairs_rendered", "day_pairs_with_a_letter_as_separator", "cli_dates", "bump_pairs", "bump_pairs_new_before_old", "bump_pairs_from_boundary_days", "bump_pin_date_cases", "mispairings_refused_in_file_patterns", "mispairings_refused_by_test",
              "mispairings_refused_by_loader", "mispairings_shown_non_monotone"],
    anchors=[("v2version", "cal_info"), ("v2version", "is_valid_week_pattern"), ("v2version", "_is_cal_gt"),
             ("config", "_validate_version_with_pattern")],
    exhaustive={"quick": True, "thorough": True},
    exhaustive_note="library-level day-pair sweep is exhaustive on both tiers; the CLI sweep is exhaustive in thorough",
)

D0 = dt.date(2001, 1, 1)
D1 = dt.date(2099, 12, 31)


def cases(ctx):
    pats = coherent_patterns()
    for i, p in enumerate(pats + LETTERED):
        if ctx.mine(i):
            yield {"kind": "lib", "pattern": p}
    k = 0
    for p in pats:
        for y in range(2001, 2100):
            if ctx.mine(k):
                yield {"kind": "cli", "pattern": p, "year": y, "all_days": not ctx.quick}
            k += 1
    for _ in range(ctx.size(20000, 1000000) // 50):
        yield {"kind": "bump", "seed": ctx.rng.getrandbits(48), "n": 50}
    for i, p in enumerate(mispaired_patterns()):
        if ctx.mine(i):
            yield {"kind": "mispair", "pattern": p}
            yield {"kind": "mispair-file", "pattern": p}


def vkey(text):
    try:
        return Version(text)
    except InvalidVersion:
        return None


def ints(ast, text):
    raw = ref.parse(ast, text)
    if raw is None:
        return None
    out = []
    for name, t in raw:
        v = int(t)
        if name in ("YY", "0Y", "GG", "0G"):
            v += 2000
        out.append(v)
    return out


def run_lib(ctx, case):
    harness.bv()
    import bumpver.v2version as v2v
    from bvmon.checks.C02 import mk_vinfo
    import bumpver.version as bvv
    p = case["pattern"]
    ast = ref.parse_pattern(p)
    d = D0
    prev_t = prev_v = prev_i = None
    base = ref.default_state()
    n = 0
    while d <= D1:
        ci = v2v.cal_info(d)
        st = dict(base)
        st.update(ci._asdict())
        t = v2v.format_version(mk_vinfo(bvv, st), p)
        v = vkey(t) if p not in LETTERED else (0,)
        it = ints(ast, t)
        if p in LETTERED:
            ctx.counters["day_pairs_with_a_letter_as_separator"] += 1
        if v is None or it is None:
            ctx.violation("other:rendered_calendar_version_unreadable", f"{p!r} on {d}: {t!r} (pep440={v}, ints={it})",
                          case={"kind": "pair", "pattern": p, "date": d.isoformat()})
            break
        if prev_t is not None:
            n += 1
            if v < prev_v or it < prev_i:
                ctx.violation("other:runs_backwards", f"{p!r}: {d - dt.timedelta(1)} -> {prev_t!r}, {d} -> {t!r}",
                              case={"kind": "pair", "pattern": p, "date": d.isoformat()})
            if d.month == 1 and d.day == 1:
                ctx.nt.add(f"{p}|{d.weekday()}|{(d.year % 4 == 0)}")
        prev_t, prev_v, prev_i = t, v, it
        d += dt.timedelta(1)
    ctx.evaluations += n
    ctx.counters["day_pairs_rendered"] += n
    if len(ctx.samples) < 2:
        ctx.samples.append({"pattern": p, "day_pairs": n, "last": prev_t})


def run_cli(ctx, case):
    p = case["pattern"]
    y = case["year"]
    ast = ref.parse_pattern(p)
    pp = p + ".INC0"
    base_st = dict(ref.default_state())
    base_st.update(ref.cal_from_date(D0))
    base = ref.render(ast, base_st) + ".0"
    if case["all_days"]:
        days = [dt.date(y, 1, 1) + dt.timedelta(k) for k in range(366 if y % 4 == 0 else 365)]
        if y > 2001:
            days.insert(0, dt.date(y - 1, 12, 31))
    else:
        days = [dt.date(y, 12, 24) + dt.timedelta(k) for k in range(15)]
        days = [d for d in days if d <= D1]
    prev = None
    for d in days:
        if d <= D0:
            continue
        res = harness.invoke(["test", base, pp, "--date", d.isoformat()])
        ctx.counters["cli_dates"] += 1
        ctx.evaluations += 1
        if res.exit_code != 0:
            ctx.counters["cli_refused"] += 1
            if res.crash:
                ctx.violation("other:cli_crash", f"test {base} {pp} --date {d}: {res.crash}")
            continue
        a = res.stdout_value("New Version: ")
        v = vkey(a)
        if v is None:
            ctx.violation("other:announced_calendar_version_not_pep440", f"{pp!r} {d}: {a!r}")
            continue
        if prev is not None and v < prev[1]:
            ctx.violation("other:cli_runs_backwards", f"{pp!r}: {prev[2]} -> {prev[0]!r}, {d} -> {a!r}",
                          case={"kind": "cli", "pattern": p, "year": y, "all_days": case["all_days"]})
        prev = (a, v, d)
    jan1 = dt.date(min(y + 1, 2099), 1, 1)
    ctx.nt.add(f"cli|{p}|{jan1.weekday()}|{jan1.year % 4 == 0}")


def run_bump(ctx, case):
    R = random.Random(case["seed"])
    pats = coherent_patterns()
    for _ in range(case["n"]):
        p = R.choice(pats)
        ast = ref.parse_pattern(p)
        names = list(ref.parts_in(ast))
        pp = p + ".INC0"
        do = D0 + dt.timedelta(R.randint(0, (D1 - D0).days))
        if R.random() < 0.35:
            # boundary days: last / first days of a year (leap years: day 366), of February, of a quarter
            y = R.choice([2004, 2008, 2024, 2028, 2052, 2096, R.randint(2001, 2099)])
            m, d_ = R.choice([(12, 31), (12, 31), (12, 30), (1, 1), (1, 2), (2, 28), (3, 1), (3, 31), (6, 30), (9, 30), (10, 1)])
            do = dt.date(y, m, d_)
            ctx.counters["bump_pairs_from_boundary_days"] += 1
        r = R.random()
        if r < 0.4:
            dn = do - dt.timedelta(R.choice([1, 2, 7, 31, 200, 400, 3000]))
        elif r < 0.5:
            dn = do
        else:
            dn = do + dt.timedelta(R.choice([1, 2, 7, 31, 200, 400, 3000]))
        if not (D0 <= dn <= D1):
            continue
        st = dict(ref.default_state())
        st.update(ref.cal_from_date(do))
        if projects._week53(names, st):
            continue
        old = ref.render(ast, st) + ".3"
        if R.random() < 0.15:
            # --pin-date: the calendar parts stay exactly as they are
            pres = harness.invoke(["test", old, pp, "--pin-date"])
            ctx.counters["bump_pin_date_cases"] += 1
            pa = pres.stdout_value("New Version: ") if pres.exit_code == 0 else None
            pia = ints(ref.parse_pattern(pp), pa) if pa else None
            pio = ints(ref.parse_pattern(pp), old)
            if pia is None or pia[:-1] != pio[:-1]:
                ctx.violation("other:pin_date_changed_calendar_parts", f"test {old!r} {pp!r} --pin-date: exit "
                              f"{pres.exit_code} {pa!r} {pres.errors()[-2:]}",
                              case={"kind": "bump1", "old": old, "pattern": pp, "date": do.isoformat()})
        res = harness.invoke(["test", old, pp, "--date", dn.isoformat()])
        ctx.counters["bump_pairs"] += 1
        if dn < do:
            ctx.counters["bump_pairs_new_before_old"] += 1
        ctx.evaluated(("bump", p, "back" if dn < do else "same" if dn == do else "fwd", res.exit_code == 0))
        if res.exit_code != 0:
            stn = ref.cal_from_date(dn)
            if res.crash:
                ctx.violation("other:cli_crash", f"test {old} {pp} --date {dn}: {res.crash}")
            elif not projects._week53(names, stn):
                ctx.violation("other:bump_refused", f"test {old!r} {pp!r} --date {dn}: refused: {res.errors()[-2:]}",
                              case={"kind": "bump1", "old": old, "pattern": pp, "date": dn.isoformat()})
            continue
        a = res.stdout_value("New Version: ")
        io_, ia = ints(ref.parse_pattern(pp), old), ints(ref.parse_pattern(pp), a)
        if ia is None:
            ctx.violation("other:announced_unreadable", f"{pp!r}: {a!r}")
            continue
        if ia[:-1] < io_[:-1]:
            ctx.violation("other:bump_moved_calendar_backwards", f"test {old!r} {pp!r} --date {dn}: {a!r}",
                          case={"kind": "bump1", "old": old, "pattern": pp, "date": dn.isoformat()})
        # calendar parts come from the new date unless the old version is later (then unchanged)
        stn = dict(ref.default_state())
        stn.update(ref.cal_from_date(dn))
        want_cal = ints(ast, ref.render(ast, stn)) if dn >= do else io_[:-1]
        if ia[:-1] != want_cal and dn != do:
            # equal renderings for different dates are fine; anything else is a wrong calendar part
            ctx.violation("other:bump_calendar_parts_wrong", f"test {old!r} {pp!r} --date {dn}: {a!r}, expected "
                          f"calendar parts {want_cal}", case={"kind": "bump1", "old": old, "pattern": pp, "date": dn.isoformat()})


def run_mispair(ctx, case):
    p = case["pattern"]
    ast = ref.parse_pattern(p)
    # (1) R1 exhibits a day pair on which this pairing runs backwards
    d = D0
    prev = None
    witness = None
    while d <= D1 and witness is None:
        st = dict(ref.default_state())
        st.update(ref.cal_from_date(d))
        it = ints(ast, ref.render(ast, st))
        if prev is not None and it < prev[0]:
            witness = (prev[1].isoformat(), d.isoformat())
        prev = (it, d)
        d += dt.timedelta(1)
    if witness is None:
        ctx.violation("other:rejected_pairing_is_monotone", f"{p!r} is rejected but never runs backwards 2001..2099")
    else:
        ctx.counters["mispairings_shown_non_monotone"] += 1
    # (2) `test` refuses, (3) the config loader refuses
    st = dict(ref.default_state())
    st.update(ref.cal_from_date(dt.date(2021, 6, 15)))
    cur = ref.render(ast, st)
    for variant, pat, old in (("plain", p, cur), ("with-inc", p + ".INC0", cur + ".0"), ("v-prefix", "v" + p + "[-TAG]", "v" + cur)):
        res = harness.invoke(["test", old, pat, "--date", "2022-03-04"])
        ctx.evaluated(("mispair", pat))
        if res.exit_code == 0:
            ctx.violation("other:mispairing_accepted_by_test", f"test {old!r} {pat!r} accepted: {res.stdout!r}",
                          case=case)
        else:
            ctx.counters["mispairings_refused_by_test"] += 1
        cfg = (f'[bumpver]\ncurrent_version = "{old}"\nversion_pattern = "{pat}"\n\n[bumpver.file_patterns]\n'
               f'"bumpver.toml" = [\'current_version = "{{version}}"\']\n')
        dpath = harness.new_project({"bumpver.toml": cfg})
        try:
            r2 = harness.invoke(["show", "--no-fetch"], cwd=dpath)
            r3 = harness.invoke(["update", "--no-fetch", "--dry", "--date", "2022-03-04"], cwd=dpath)
            if r2.exit_code == 0 or r3.exit_code == 0:
                ctx.violation("other:mispairing_accepted_by_config_loader",
                              f"version_pattern {pat!r}: show exit {r2.exit_code}, update --dry exit {r3.exit_code}", case=case)
            else:
                ctx.counters["mispairings_refused_by_loader"] += 1
        finally:
            harness.rm_dir(dpath)


def run_mispair_file_pattern(ctx, case):
    """The same pairing as a FILE pattern (partial pattern of a coherent version pattern): rejected as well."""
    p = case["pattern"]
    ast = ref.parse_pattern(p)
    st = dict(ref.default_state())
    st.update(ref.cal_from_date(dt.date(2021, 6, 15)))
    text = ref.render(ast, st)
    cfg = ('[bumpver]\ncurrent_version = "2021.06.15.1001"\nversion_pattern = "YYYY.0M.0D.BUILD"\n\n[bumpver.file_patterns]\n'
           '"bumpver.toml" = [\'current_version = "{version}"\']\n' + f'"notes.txt" = ["stamp {p} ;"]\n')
    dpath = harness.new_project({"bumpver.toml": cfg, "notes.txt": f"stamp {text} ;\n"})
    try:
        before = harness.snapshot(dpath)
        r = harness.invoke(["update", "--no-fetch", "--date", "2022-01-01"], cwd=dpath)
        ctx.evaluated(("mispair-file-pattern", p))
        if r.exit_code == 0 or harness.snapshot(dpath) != before:
            ctx.violation("mispairing_accepted_in_file_pattern", f"file pattern 'stamp {p} ;' under version pattern "
                          f"YYYY.0M.0D.BUILD: update exit {r.exit_code}, notes.txt = "
                          f"{harness.snapshot(dpath).get('notes.txt')!r}", case=case)
        else:
            ctx.counters["mispairings_refused_in_file_patterns"] += 1
    finally:
        harness.rm_dir(dpath)


def run_case(ctx, case):
    k = case["kind"]
    if k == "mispair-file":
        return run_mispair_file_pattern(ctx, case)
    if k == "lib":
        return run_lib(ctx, case)
    if k == "cli":
        return run_cli(ctx, case)
    if k == "bump":
        return run_bump(ctx, case)
    if k == "mispair":
        return run_mispair(ctx, case)
    if k == "pair":
        # replay of one library-level witness: re-run the whole pattern sweep
        return run_lib(ctx, {"kind": "lib", "pattern": case["pattern"]})
    if k == "bump1":
        res = harness.invoke(["test", case["old"], case["pattern"], "--date", case["date"]])
        print("replay:", res.brief())

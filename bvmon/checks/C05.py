"""C05 - bump semantics follow the documented part rules.

Reference-model monitor: every `bumpver test OLD PATTERN <flags> --date D` execution is compared, in both
directions, with the prediction of the independent bump model R2 (+ PEP 440 gate R4).
"""
import datetime as dt

from packaging.version import InvalidVersion, Version

from bvmon import gen, harness, ref

SPEC = dict(
    level="exploration",
    rule=("cases = grammar-G pattern x reachable boundary state x one of the 2^7 flag on/off sets (cycled "
          "systematically; --tag value drawn from its 6 values) x date offset (same day, later, across "
          "month/year, earlier); every 7th bracketed case starts from a NON-CANONICAL text the pattern accepts (optional non-calendar groups left out although non-zero); non-trivial+distinct = distinct (pattern shape, flag set, set of parts that "
          "changed, set of parts that were reset, #groups omitted, outcome) tuples"),
    assumptions=[
        "reference model R2 (bvmon/ref.py) encodes the README rules; PEP 440 order from the packaging wheel",
        "patterns are the unambiguous grammar G (exactly one parse of every generated text)",
        "when old and new text are both outside PEP 440 the gate decision is not modelled (legacy ordering): a refusal is "
                 "only counted, an accepted bump must announce exactly the model's text",
    ],
    required=["hash_part_cases", "agree:accepted", "agree:refused", "subprocess_replays", "update_command_replays",
              "noncanonical_start_versions"],
    anchors=[("v2version", "_incr_numeric"), ("v2version", "_reset_rollover_fields"), ("v2version", "incr"),
             ("v2version", "_is_cal_gt"), ("cli", "_validate_flags")],
)

FLAGSETS = gen.all_flag_sets()
_NOFLAGS = dict(major=False, minor=False, patch=False, tag=None, tag_num=False, pin_increments=False, pin_date=False)
# witnesses that run on every tier: the known week-53 finding and the two repaired defects
PINNED = [
    {"p": "YYYY.WW.PATCH", "old": "2018.52.3", "date": "2018-12-31", "flags": dict(_NOFLAGS)},
    {"p": "vYY.0W", "old": "v42.00", "date": "2042-01-03", "flags": dict(_NOFLAGS, tag="dev", pin_date=True)},
    {"p": "MINOR[-TAGNUM]", "old": "0-dev0", "date": "2021-01-01", "flags": dict(_NOFLAGS, tag="final", pin_date=True)},
]


def cases(ctx):
    for k in range(len(HASH_CASES)):
        if ctx.mine(k):
            yield {"kind": "hash", "i": k}
    R = ctx.rng
    n = ctx.size(40000, 2000000)
    base = ctx.shard * 977
    for i in range(n):
        p = gen.gen_pattern(R)
        try:
            ast = ref.parse_pattern(p)
        except ref.PatternSyntaxError:
            continue
        names = list(ref.parts_in(ast))
        d, st = gen.gen_state(R, names)
        bits = FLAGSETS[(base + i) % 128]
        fl = dict(zip(gen.FLAG_NAMES, bits))
        fl["tag"] = R.choice(ref.TAG_LIST) if fl["tag"] else None
        if R.random() < 0.5:  # keep a share of cases where the M/m/p flags are applicable
            for f, pn in (("major", "MAJOR"), ("minor", "MINOR"), ("patch", "PATCH")):
                if pn not in names:
                    fl[f] = False
        off = R.choice(gen.DATE_OFFSETS)
        if i % 6 == 0:
            # calendar boundary mode: old and new date both within a fortnight of New Year (week 0 / 52 / 53,
            # ISO year change, quarter and month roll-over), small offsets in both directions
            y = R.randint(2001, 2097)
            d = dt.date(y, 12, 18) + dt.timedelta(R.randint(0, 28))
            st.update(ref.cal_from_date(d))
            off = R.randint(-12, 12)
        try:
            date = d + dt.timedelta(off)
        except OverflowError:
            date = d
        case = {"p": p, "state": st, "date": date.isoformat(), "flags": fl}
        if "[" in p and i % 7 == 3:
            # a current version the pattern accepts without being its canonical rendering: optional groups left out
            # although their parts are not zero (hand-written config values, tags of older releases)
            t = ref.render_omitting(ast, st, R)
            if t and t != ref.render(ast, st) and ref.parse(ast, t) is not None:
                case = {"p": p, "old": t, "date": date.isoformat(), "flags": fl, "noncanonical": True}
        yield case


# an optional group that holds only a hash part: it is omitted when there is no hash (and the enclosing groups with it),
# and carried over unchanged when there is one. (pattern, old, args, expected)
HASH_CASES = [
    ("MAJOR.MINOR.PATCH[+HEXHASH]", "1.2.3", ["--patch"], "1.2.4"),
    ("MAJOR.MINOR.PATCH[+HEXHASH]", "1.2.3+abc1", ["--patch"], "1.2.4+abc1"),
    ("MAJOR.MINOR[.PATCH[+HEXHASH]]", "1.2.3", ["--minor"], "1.3"),
    ("YYYY.BUILD[-TAG][+HEXHASH]", "2024.1001", ["--date", "2024-02-02"], "2024.1002"),
    ("YYYY.MM[.INC0[+HEXHASH]]", "2024.5", ["--date", "2024-06-01"], "2024.6"),
    ("MAJOR.MINOR.PATCH[+HEXHASH]", "1.2.3", ["--set-version", "1.2.4"], "1.2.4"),
    ("vMAJOR.MINOR[.PATCH][-TAG[NUM]][+HEXHASH]", "v1.2-rc1+0f", ["--tag-num"], "v1.2-rc2+0f"),
]


def run_hash(ctx, case):
    p, old, args, want = HASH_CASES[case["i"]]
    res = harness.invoke(["test", old, p] + args)
    got = res.stdout_value("New Version: ") if res.exit_code == 0 else None
    ctx.counters["hash_part_cases"] += 1
    ctx.evaluated(("hash", p, old), sample={"argv": res.args, "got": got})
    if got != want:
        ctx.violation("other:different_text" if got else "other:refused_where_model_predicts_version",
                      f"test {old!r} {p!r} {args}: expected {want!r}, got {got!r} {res.errors()[-1:]} {res.crash or ''}", case=case)


def gate(old, new):
    """R4: 'accept' | 'refuse' | 'unknown' (both legacy)"""
    try:
        vo = Version(old)
    except InvalidVersion:
        vo = None
    try:
        vn = Version(new)
    except InvalidVersion:
        vn = None
    if vo is not None and vn is not None:
        return "accept" if vn > vo else "refuse"
    if vn is not None:
        return "accept"
    if vo is not None:
        return "refuse"
    return "unknown"


def classify(case, ast, old, cur, exp, got):
    names = set(ref.parts_in(ast))
    fl = case["flags"]

    def wk(st):
        return st is not None and ((st.get("week_w") == 53 and names & {"WW", "0W"})
                                   or (st.get("week_u") == 53 and names & {"UU", "0U"}))

    if got is None and exp is not None and (wk(old) or wk(cur)):
        return "week_53_rendered_not_recognised"
    if fl.get("pin_date") and old is not None and ((old.get("week_w") == 0 and names & {"WW", "0W"})
                                                  or (old.get("week_u") == 0 and names & {"UU", "0U"})):
        return "pin_date_on_week_0"
    if got is None and exp is not None and cur is not None and ref._render(ast, cur)[1]:
        return "toplevel_all_zero_rendered_empty"
    if got is None:
        return "other:refused_where_model_predicts_version"
    if exp is None:
        return "other:accepted_where_model_refuses"
    return "other:different_text"


def run_case(ctx, case):
    if case.get("kind") == "hash":
        return run_hash(ctx, case)
    bvv = harness.bv().version
    today = bvv.TODAY
    p = case["p"]
    ast = ref.parse_pattern(p)
    names = list(ref.parts_in(ast))
    if "old" in case:
        old_text = case["old"]
        raw = ref.parse(ast, old_text)
        old = ref.state_from_raw(raw, today) if raw else None
        if case.get("noncanonical"):
            if ref.n_full_parses(ast, old_text) != 1:
                raise harness.Skip("ambiguous-text")
            ctx.count("noncanonical_start_versions")
    else:
        r = gen.reachable(ast, case["state"], today)
        if r is None:
            raise harness.Skip("unreachable-state")
        old_text, old = r
        if ref.n_full_parses(ast, old_text) != 1:
            raise harness.Skip("ambiguous-text")
    fl = case["flags"]
    date = dt.date.fromisoformat(case["date"])
    # prediction
    exp = None
    cur = None
    gate_unknown = False
    applicable = all(("MAJOR MINOR PATCH".split()[i] in names) or not fl.get(f)
                     for i, f in enumerate(("major", "minor", "patch")))
    try:
        if applicable and old is not None and ref.week_pairing_ok(names):
            cur = ref.bump_state(ast, old, date, **fl)
            if cur is not None:
                t = ref.render(ast, cur)
                if t != "" and t != old_text and ref.parse(ast, t) is not None:
                    exp = t
    except OverflowError:
        raise harness.Skip("build-overflow")
    if exp is not None:
        if ref.n_full_parses(ast, exp) != 1:
            raise harness.Skip("ambiguous-text")
        g = gate(old_text, exp)
        gate_unknown = g == "unknown"
        if g == "refuse":
            exp = None
    res = harness.invoke(["test", old_text, p] + gen.flags_to_args(fl, date))
    got = res.stdout_value("New Version: ") if res.exit_code == 0 else None
    if res.exit_code == 0 and got is None:
        ctx.violation("other:exit0_without_version", f"exit 0 but no 'New Version:' line for {p!r} {old_text!r}",
                      observed=res.brief())
        return
    changed = sorted(f for f in (cur or {}) if old and cur and old.get(f) != cur.get(f)) if exp else []
    ntk = (ref.shape(ast), "".join("1" if fl.get(f) else "0" for f in gen.FLAG_NAMES),
           ",".join(changed), ref.render_info(ast, cur)[1] if exp else -1, "acc" if exp else "ref")
    ctx.evaluated(ntk, sample={"argv": res.args, "expected": exp, "observed": got})
    if ctx.rng.random() < (0.004 if ctx.quick else 0.0005):
        # the true CLI boundary: the same case through `python -m bumpver` in a child process
        rc, out, _err = harness.run_cli_subprocess(["test", old_text, p] + gen.flags_to_args(fl, date), cwd=None)
        sub = None
        for ln in out.splitlines():
            if ln.startswith("New Version: "):
                sub = ln[len("New Version: "):]
        ctx.count("subprocess_replays")
        if (rc == 0) != (res.exit_code == 0) or (sub if rc == 0 else None) != got:
            ctx.violation("other:subprocess_differs_from_in_process", f"test {old_text!r} {p!r}: in-process exit "
                          f"{res.exit_code} {got!r}, subprocess exit {rc} {sub!r}", case=dict(case, old=old_text))
    if applicable and ctx.rng.random() < 0.2 and " " not in p and old_text.strip("'\" ") == old_text and p.strip("'\" ") == p:
        # the other command: `bumpver update --dry` in a project whose only file is the configuration must
        # announce exactly what `bumpver test` announces for the same version, pattern, flags and date
        from bvmon.projects import toml_str
        d = harness.new_project({"bumpver.toml": f"[bumpver]\ncurrent_version = {toml_str(old_text)}\n"
                                 f"version_pattern = {toml_str(p)}\n\n[bumpver.file_patterns]\n"
                                 "\"bumpver.toml\" = ['current_version = \"{version}\"']\n"})
        try:
            ures = harness.invoke(["update", "--dry", "--no-fetch"] + gen.flags_to_args(fl, date), cwd=d)
        finally:
            harness.rm_dir(d)
        ugot = ures.record_value("New Version: ") if ures.exit_code == 0 else None
        ctx.count("update_command_replays")
        if ugot != got and not (ures.exit_code != 0 and any("Couldn't parse" in e for e in ures.errors())):
            ctx.violation("other:update_differs_from_test", f"{gen.flags_to_args(fl, date)} on {old_text!r} {p!r}: "
                          f"test announces {got!r}, update --dry announces {ugot!r}", case=dict(case, old=old_text),
                          observed=ures.brief())
    if exp is not None and gate_unknown:
        # old and new text are both outside PEP 440: whether the version gate accepts is not modelled (legacy
        # ordering), but an accepted bump has to announce exactly the model's text
        if got is None:
            ctx.count("non_pep440_pair:refused(gate not modelled)")
            return
        ctx.count("non_pep440_pair:accepted_text_compared")
    if got == exp:
        ctx.count("agree:accepted" if got else "agree:refused")
        if fl.get("pin_date"):
            ctx.count("pin_date_cases")
        return
    cls = classify(case, ast, old, cur, exp, got)
    ctx.violation(cls, f"test {old_text!r} {p!r} {gen.flags_to_args(fl, date)}: model={exp!r} bumpver={got!r}",
                  case=dict(case, old=old_text), observed=res.brief())

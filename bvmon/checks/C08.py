"""C08 - any sequence of updates keeps files, config and tags in agreement (real git).

History monitor: a generated project lives in a real git repository; a random sequence of invocations is
applied (updates with random flags and non-decreasing dates, failing invocations, --no-commit / --no-tag-commit
runs, manual commits, unrelated commits, branch creation and switches). After every step the monitor reads the
files, `bumpver show`, `git rev-list --count`, `git show --name-only HEAD`, `git tag --points-at HEAD`, `git tag`,
`git status --porcelain` and compares them with a small model of the history.
"""
import datetime as dt
import os
import random
import subprocess

from packaging.version import InvalidVersion, Version

from bvmon import gen, harness, projects, ref, updates

SPEC = dict(
    level="exploration",
    rule=("histories of 1..12 steps over grammar-G patterns and generated layouts in real git repositories: step kinds "
          "update (random flags, non-decreasing --date), failing invocation (contradictory flags / lower --set-version), "
          "--no-commit (then, sometimes, a manual commit), --no-tag-commit, unrelated commit, an unrelated commit that destroys an occurrence (update must fail without effect, then repair), new branch, branch switch; every 6th history uses a legacy {..} pattern (updates, destroyed occurrence, repair, final probe); "
          "all three tag scopes (no-commit/no-tag steps only with scope default, where the config takes part in the "
          "start version); non-trivial+distinct = distinct (pattern shape, scope, step-kind sequence) with >= 2 "
          "successful updates"),
    assumptions=["git 2.39 is the oracle for reachability of tags and commit contents",
                 "the start version of a step is computed with the rules of C09 from the tags real git lists"],
    required=["histories", "successful_updates", "histories_with_2plus_updates", "tag_checks", "commit_content_checks",
              "failing_steps", "broken_file_steps", "legacy_histories", "legacy_successful_updates", "branch_switches", "no_commit_steps", "final_probe_ok", "allow_dirty_steps", "scope:default", "scope:global",
              "scope:branch"],
    anchors=[("config", "_parse_raw_config"), ("cli", "_update_cfg_from_vcs"), ("vcs", "commit"), ("cli", "_update")],
)

GIT_ENV = {"GIT_CONFIG_GLOBAL": "/dev/null", "GIT_CONFIG_SYSTEM": "/dev/null", "GIT_AUTHOR_NAME": "t",
           "GIT_AUTHOR_EMAIL": "t@e", "GIT_COMMITTER_NAME": "t", "GIT_COMMITTER_EMAIL": "t@e"}


def git(d, *a, ok=True):
    e = dict(os.environ, HOME=d, **GIT_ENV)
    p = subprocess.run(["git", *a], cwd=d, env=e, capture_output=True, timeout=60)
    if ok and p.returncode:
        raise harness.Skip("git-failed:" + " ".join(a[:2]) + ":" + p.stderr.decode("utf-8", "replace")[:80])
    return p.stdout.decode()


def vkey(t):
    try:
        return Version(t)
    except InvalidVersion:
        return None


def cases(ctx):
    for i in range(ctx.size(480, 6000)):
        yield {"seed": ctx.rng.getrandbits(48), "legacy": i % 6 == 5}


def run_legacy_history(ctx, case):
    """Legacy ({..}) patterns through the same kind of history in a real git repository: successful updates, an
    update that fails because an unrelated commit destroyed an occurrence (no effect allowed), repair, go on."""
    R = random.Random(case["seed"])
    mods = updates.bvmods()
    proj, _why = projects.gen_legacy_project(R, mods, n_files=R.randint(1, 4))
    proj.meta["cfg_extra"] = {"commit": True, "tag": True, "push": False}
    perm = list(range(len(proj.entries)))
    R.shuffle(perm)
    proj = projects.reorder_entries(proj, perm, R)
    cur0 = proj.cur_text
    files0 = dict(proj.files)
    if vkey(cur0) is None or any(t.count(cur0) != sum(1 for pl in proj.plants if pl.file == fn) for fn, t in files0.items()):
        raise harness.Skip("legacy-layout-not-usable")
    semver = "semver" in proj.vp or "MAJOR" in proj.vp
    d = harness.new_project(dict(proj.encoded(), **{"other.txt": b"unrelated\n"}))
    env = dict(GIT_ENV, HOME=d)
    kinds = []
    try:
        git(d, "init", "-q", "-b", "main")
        git(d, "add", "-A")
        git(d, "commit", "-q", "-m", "init")
        ctx.count("legacy_histories")
        cur = cur0
        date = dt.date(2100, 1, 1)
        n_ok = 0
        for step in range(R.randint(2, 7)):
            kind = "broken-file" if R.random() < 0.35 and len(proj.files) > 1 else "update"
            kinds.append(kind)
            date += dt.timedelta(R.choice([0, 1, 40]))
            args = ["update", "--no-fetch", "--date", date.isoformat()] + ([R.choice(["--patch", "--minor"])] if semver else [])
            desc = {"steps": list(kinds), "pattern": proj.vp, "version_now": cur, "entries": proj.entries, "argv": args}
            tags0 = sorted(git(d, "tag").split())
            n0 = int(git(d, "rev-list", "--count", "HEAD"))
            if kind == "broken-file":
                victim = R.choice([fn for fn in proj.files if fn != proj.cfg_name])
                path = os.path.join(d, victim)
                good = open(path, encoding="utf-8", newline="").read()
                with open(path, "w", encoding="utf-8", newline="") as f:
                    f.write(good.replace(cur, "~" * len(cur), 1) if R.random() < 0.5 else good.replace(cur, "~" * len(cur)))
                git(d, "commit", "-q", "-am", "unrelated commit that destroys an occurrence")
                n0 += 1
                before = harness.snapshot(d)
                res = harness.invoke(args, cwd=d, env=env)
                after = harness.snapshot(d)
                ctx.count("broken_file_steps")
                if res.exit_code == 0 or after != before or int(git(d, "rev-list", "--count", "HEAD")) != n0 \
                        or sorted(git(d, "tag").split()) != tags0:
                    ctx.violation("other:failing_invocation_had_effects", f"legacy {args} with a destroyed occurrence in "
                                  f"{victim}: exit {res.exit_code}, changed {harness.diff_snapshots(before, after)}",
                                  case=case, observed=desc)
                    return
                with open(path, "w", encoding="utf-8", newline="") as f:
                    f.write(good)
                git(d, "commit", "-q", "-am", "repair")
                continue
            before = harness.snapshot(d)
            res = harness.invoke(args, cwd=d, env=env)
            after = harness.snapshot(d)
            n1 = int(git(d, "rev-list", "--count", "HEAD"))
            tags1 = sorted(git(d, "tag").split())
            if res.exit_code != 0:
                if after != before or n1 != n0 or tags1 != tags0:
                    ctx.violation("other:failed_update_had_effects", f"legacy {args}: exit {res.exit_code}, changed "
                                  f"{harness.diff_snapshots(before, after)}", case=case, observed=desc)
                    return
                ctx.count("legacy_update_refused")   # e.g. same date, nothing to increment
                continue
            a = res.record_value("New Version: ")
            n_ok += 1
            ctx.count("legacy_successful_updates")
            if vkey(a) is None or not vkey(a) > vkey(cur):
                ctx.violation("other:new_version_not_greater", f"legacy {args}: {a!r} vs {cur!r}", case=case, observed=desc)
                return
            for fn, t0 in files0.items():
                if after[fn] != t0.replace(cur0, a).encode("utf-8"):
                    ctx.violation("other:stale-or-wrong-occurrence", f"legacy step {step} {args}: {fn} is "
                                  f"{after[fn][:200]!r}, expected every occurrence to show {a!r}", case=case, observed=desc)
                    return
            s = harness.invoke(["show", "--no-fetch"], cwd=d, env=env)
            if s.exit_code != 0 or s.stdout_value("Current Version: ") != a:
                ctx.violation("other:show_disagrees", f"legacy: after {args}: show says "
                              f"{s.stdout_value('Current Version: ')!r}, announced {a!r}", case=case, observed=desc)
            at_head = git(d, "tag", "--points-at", "HEAD").split()
            if n1 != n0 + 1 or at_head != [a] or git(d, "status", "--porcelain").strip():
                ctx.violation("other:tag_missing_or_wrong", f"legacy {args}: commits {n0}->{n1}, tags at HEAD {at_head}, "
                              f"announced {a!r}, status {git(d, 'status', '--porcelain').strip()!r}", case=case, observed=desc)
                return
            shown_files = sorted(x for x in git(d, "show", "--name-only", "--format=", "HEAD").splitlines() if x)
            if not set(shown_files) <= set(proj.file_patterns) or not shown_files:
                ctx.violation("other:commit_contains_unconfigured_files", f"legacy: {shown_files}", case=case, observed=desc)
            cur = a
        if n_ok:
            # final probe: a further update (a year later) is possible
            pargs = ["update", "--dry", "--no-fetch", "--date", (date + dt.timedelta(400)).isoformat()] + (["--patch"] if semver else [])
            res = harness.invoke(pargs, cwd=d, env=env)
            if res.exit_code == 0:
                ctx.count("legacy_final_probe_ok")
            elif not (res.crash or "").startswith("OverflowError"):
                ctx.violation("other:no_further_update_possible", f"legacy {pargs} after {n_ok} successful updates: exit "
                              f"{res.exit_code} {res.errors()[-2:]} {res.crash or ''}", case=case,
                              observed={"steps": list(kinds), "pattern": proj.vp, "version_now": cur})
        ctx.evaluated(("legacy", proj.vp, tuple(kinds)) if n_ok >= 2 else None,
                      sample={"pattern": proj.vp, "steps": kinds, "final_version": cur})
    finally:
        harness.rm_dir(d)


def run_case(ctx, case):
    if case.get("legacy"):
        return run_legacy_history(ctx, case)
    R = random.Random(case["seed"])
    mods = updates.bvmods()
    tdy = updates.today()
    scope = R.choice(["default", "default", "global", "branch"])
    commit_cfg = {"commit": True, "tag": True, "push": False, "tag_scope": scope}
    proj = None
    for _ in range(30):
        proj, why = projects.gen_project(R, mods, tdy, eol_choices=("\n",), n_files=R.randint(1, 3), max_patterns=3,
                                         cfg_fmt="toml", commit_cfg=commit_cfg, globs=False)
        if proj is not None and vkey(proj.cur_text) is not None:
            bid = proj.cur_state["bid"]
            # stay clear of the documented BUILD maximum (all digits 9) within a 12 step history
            if not any(n in proj.vp for n in ("BUILD", "BLD")) or (int(bid) < 8000 and set(bid) != {"9"} and
                                                                   not bid.lstrip("0").startswith("99")):
                break
        proj = None
    if proj is None:
        raise harness.Skip("no-usable-project")
    vp = proj.vp
    ast = ref.parse_pattern(vp)
    names = list(ref.parts_in(ast))
    d = harness.new_project(dict(proj.encoded(), **{"other.txt": b"unrelated\n"}))
    env = dict(GIT_ENV, HOME=d)
    kinds = []
    n_ok = 0
    date = None
    two_digit_year = any(n in names for n in ("YY", "0Y", "GG", "0G"))
    domain_left = False
    try:
        git(d, "init", "-q", "-b", "main")
        git(d, "add", "-A")
        git(d, "commit", "-q", "-m", "init")
        branches = ["main"]
        cur_branch = "main"
        pending_uncommitted = False
        n_steps = R.randint(1, 12)
        ctx.count("histories")
        ctx.count("scope:" + scope)
        st0 = proj.cur_state
        date = dt.date(st0.get("year_y") or st0.get("year_g") or 2021, st0.get("month") or 6, min(st0.get("dom") or 15, 28))
        for step in range(n_steps):
            r = R.random()
            if pending_uncommitted:
                kind = R.choice(["manual-commit", "manual-commit", "update", "no-commit"])
            elif r < 0.45:
                kind = "update"
            elif r < 0.5:
                kind = "broken-file"
            elif r < 0.6:
                kind = "failing"
            elif r < 0.7 and scope == "default":
                kind = "no-commit"
            elif r < 0.78 and scope == "default":
                kind = "no-tag"
            elif r < 0.82:
                kind = "unrelated-commit"
            elif r < 0.86:
                kind = "allow-dirty"
            elif r < 0.93:
                kind = "new-branch"
            else:
                kind = "switch-branch"
            kinds.append(kind)
            if kind == "manual-commit":
                git(d, "commit", "-q", "-am", "manual commit of the pending bump")
                pending_uncommitted = False
                continue
            if kind == "unrelated-commit":
                with open(os.path.join(d, "other.txt"), "a") as f:
                    f.write(f"more {step}\n")
                if pending_uncommitted:
                    git(d, "add", "other.txt")
                    git(d, "commit", "-q", "-m", "unrelated", "--", "other.txt")
                else:
                    git(d, "commit", "-q", "-am", "unrelated")
                continue
            if kind == "new-branch":
                if pending_uncommitted:
                    continue
                name = f"feature{len(branches)}"
                git(d, "checkout", "-q", "-b", name)
                branches.append(name)
                cur_branch = name
                ctx.count("branch_switches")
                proj = reload_project(proj, d, tdy)
                continue
            if kind == "switch-branch":
                if pending_uncommitted or len(branches) < 2:
                    continue
                cur_branch = R.choice([b for b in branches if b != cur_branch])
                git(d, "checkout", "-q", cur_branch)
                ctx.count("branch_switches")
                proj = reload_project(proj, d, tdy)
                continue
            # ---- invocations of bumpver
            all_tags = [t for t in git(d, "tag").split() if t]
            merged = [t for t in git(d, "tag", "--merged", "HEAD").split() if t]
            cfg_version = proj.cur_text
            start = expected_start(ast, tdy, cfg_version, all_tags, merged, scope)
            if start is None:
                raise harness.Skip("start-order-unknown")
            start_state = updates.new_state_from_text(vp, start, tdy)
            n_before = int(git(d, "rev-list", "--count", "HEAD"))
            before = harness.snapshot(d)
            if kind == "failing":
                args = R.choice([["update", "--no-fetch", "--no-commit", "--tag-commit", "--patch"],
                                 ["update", "--no-fetch", "--set-version", start],
                                 ["update", "--no-fetch", "--no-commit", "--push"],
                                 ["update", "--no-fetch", "--tag", "nonsense"]])
                res = harness.invoke(args, cwd=d, env=env)
                ctx.count("failing_steps")
                after = harness.snapshot(d)
                if res.exit_code == 0 or after != before or int(git(d, "rev-list", "--count", "HEAD")) != n_before \
                        or sorted(git(d, "tag").split()) != sorted(all_tags):
                    ctx.violation("other:failing_invocation_had_effects", f"{args}: exit {res.exit_code}, changed "
                                  f"{harness.diff_snapshots(before, after)}", case=case, observed=hist(kinds, proj))
                    return
                continue
            if two_digit_year and date.year >= 2097:
                ctx.count("history_ended:two_digit_year_range")
                domain_left = True
                break
            fl, date2, exp, why = updates.plan_update(R, vp, start, start_state, tdy, tries=8)
            if two_digit_year and date2.year > 2098:
                date2 = date
            date = max(date, date2) if exp is None else date2 if date2 >= date else date
            if exp is not None and date2 < date:
                # keep dates non-decreasing: re-plan with the current date
                exp, why = updates.model_bump(vp, start, fl, date, tdy)
            extra = []
            if kind == "allow-dirty":
                # an unconfigured tracked file carries an unstaged local edit; the bump commit must not take it
                with open(os.path.join(d, "other.txt"), "a") as f:
                    f.write(f"local edit {step}\n")
                extra = ["--allow-dirty"]
                before = harness.snapshot(d)
            if kind == "no-commit":
                extra = ["--no-commit"]
            elif kind == "no-tag":
                extra = ["--no-tag-commit"]
            args = updates.update_args(fl, date) + extra
            if kind == "broken-file":
                # an unrelated commit destroyed every occurrence of one configured pattern in one file: the update has
                # to fail without any effect, and after the repair the history goes on
                cands = [pl for pl in proj.plants if pl.file != proj.cfg_name]
                if exp is None or not cands:
                    continue
                victim = R.choice(cands)
                t = good = proj.files[victim.file]
                for pl in proj.plants:
                    if pl.file == victim.file and pl.raw == victim.raw:
                        t = t[:pl.start] + "~" * (pl.end - pl.start) + t[pl.end:]
                path = os.path.join(d, victim.file)
                with open(path, "w", encoding="utf-8", newline="") as f:
                    f.write(t)
                git(d, "commit", "-q", "-am", "unrelated commit that destroys an occurrence")
                n_before += 1
                before = harness.snapshot(d)
                res = harness.invoke(args, cwd=d, env=env)
                after = harness.snapshot(d)
                ctx.count("broken_file_steps")
                if res.exit_code == 0 or after != before or int(git(d, "rev-list", "--count", "HEAD")) != n_before \
                        or sorted(git(d, "tag").split()) != sorted(all_tags):
                    ctx.violation("other:failing_invocation_had_effects", f"{args} with the occurrences of {victim.raw!r} "
                                  f"in {victim.file} destroyed: exit {res.exit_code}, changed "
                                  f"{harness.diff_snapshots(before, after)}", case=case, observed=hist(kinds, proj))
                    return
                with open(path, "w", encoding="utf-8", newline="") as f:
                    f.write(good)
                git(d, "commit", "-q", "-am", "repair")
                continue
            res = harness.invoke(args, cwd=d, env=env)
            after = harness.snapshot(d)
            n_after = int(git(d, "rev-list", "--count", "HEAD"))
            tags_after = [t for t in git(d, "tag").split() if t]
            desc = dict(hist(kinds, proj), argv=args, start=start, config=cfg_version, tags=all_tags, scope=scope,
                        res=res.brief())
            if res.exit_code != 0:
                # allowed: refusals (no change, duplicate tag in branch scope, dirty tree); never a partial effect
                if after != before or n_after != n_before or sorted(tags_after) != sorted(all_tags):
                    ctx.violation("other:failed_update_had_effects", f"{args}: exit {res.exit_code}, changed "
                                  f"{harness.diff_snapshots(before, after)}, commits {n_before}->{n_after}, tags "
                                  f"{sorted(set(tags_after) - set(all_tags))}", case=case, observed=desc)
                    return
                if kind == "no-commit" and exp is not None and res.crash is None and \
                        not updates.week53_involved(vp, start_state, updates.new_state_from_text(vp, exp, tdy)):
                    # a non-committing update never looks at the working tree state: the version state left by
                    # the previous step must be an acceptable input for this one
                    ctx.violation("other:non_committing_update_refused", f"{args}: exit {res.exit_code} "
                                  f"{res.errors()[-3:]} (pending uncommitted bump: {pending_uncommitted})", case=case,
                                  observed=desc)
                    return
                if pending_uncommitted:
                    ctx.count("update_refused_on_dirty_tree")
                elif exp is not None and not (scope == "branch" and exp in all_tags):
                    ctx.count("update_refused_although_model_predicts_success")
                continue
            if pending_uncommitted and kind in ("update", "no-tag"):
                ctx.violation("other:committing_update_on_dirty_pattern_files", f"{args}: exit 0 although the previous "
                              f"--no-commit bump is still uncommitted", case=case, observed=desc)
                return
            a = res.record_value("New Version: ")
            old_logged = res.record_value("Old Version: ")
            n_ok += 1
            ctx.count("successful_updates")
            new_state = updates.new_state_from_text(vp, a, tdy) if a else None
            if new_state is None:
                ctx.violation("other:announced_version_unreadable", f"{a!r}", case=case, observed=desc)
                return
            if old_logged != start and vkey(old_logged) != vkey(start):
                ctx.violation("other:wrong_start_version", f"{args}: started from {old_logged!r}, expected {start!r}",
                              case=case, observed=desc)
            if not (vkey(a) is not None and vkey(a) > vkey(start)) or not vkey(a) > vkey(cfg_version) and scope == "default":
                ctx.violation("other:new_version_not_greater", f"{args}: {a!r} is not > start {start!r} / config "
                              f"{cfg_version!r}", case=case, observed=desc)
            plants = []
            problems = projects.check_after(proj, {k: v for k, v in after.items() if k in proj.files}, new_state, a,
                                            collect=plants)
            for pr in problems:
                if pr[0].startswith("pep440-occurrence"):
                    continue
                ctx.violation("other:" + pr[0], f"step {step} {args}: {pr[1]}", case=case, observed=desc)
                return
            if any(pr[0].startswith("pep440-occurrence") for pr in problems):
                raise harness.Skip("pep440-mismatch(C15)")
            proj = projects.advance(proj, after, new_state, a, plants)
            amb = projects.prove_unambiguous(proj)
            if amb:
                # with the new version the configured patterns overlap each other's text (e.g. `{version}` = 66.10
                # inside `since 2066.10`): the layout has left the property's domain, the history ends here
                ctx.count("history_ended:layout_became_ambiguous")
                domain_left = True
                break
            s = harness.invoke(["show", "--no-fetch"], cwd=d, env=env)
            shown = s.stdout_value("Current Version: ")
            if s.exit_code != 0 or (shown != a and not (scope != "default" and kind in ("no-commit", "no-tag"))):
                ctx.violation("other:show_disagrees", f"after {args}: show says {shown!r}, announced {a!r}", case=case,
                              observed=desc)
            if kind == "no-commit":
                ctx.count("no_commit_steps")
                pending_uncommitted = True
                if n_after != n_before or sorted(tags_after) != sorted(all_tags):
                    ctx.violation("other:commit_or_tag_despite_no_commit", f"commits {n_before}->{n_after}, tags "
                                  f"{tags_after}", case=case, observed=desc)
                continue
            # committing update: exactly one commit with only the configured files; clean tree afterwards
            ctx.count("commit_content_checks")
            if n_after != n_before + 1:
                ctx.violation("other:commit_count", f"{args}: commits {n_before}->{n_after}", case=case, observed=desc)
                return
            shown_files = sorted(x for x in git(d, "show", "--name-only", "--format=", "HEAD").splitlines() if x)
            if not set(shown_files) <= set(proj.file_patterns) or not shown_files:
                ctx.violation("other:commit_contains_unconfigured_files", f"{shown_files} vs configured "
                              f"{sorted(proj.file_patterns)}", case=case, observed=desc)
            porc = git(d, "status", "--porcelain").strip()
            if kind == "allow-dirty":
                ctx.count("allow_dirty_steps")
                if porc != "M other.txt" and porc != " M other.txt".strip():
                    ctx.violation("other:unrelated_local_edit_not_left_alone", f"after {args}: status {porc!r}, the local "
                                  f"edit of other.txt should still be uncommitted", case=case, observed=desc)
                if "other.txt" in shown_files:
                    ctx.violation("other:commit_contains_unconfigured_files", f"{shown_files}", case=case, observed=desc)
            elif porc:
                ctx.violation("other:tree_not_clean_after_commit", porc, case=case, observed=desc)
            at_head = git(d, "tag", "--points-at", "HEAD").split()
            if kind == "no-tag":
                if at_head or sorted(tags_after) != sorted(all_tags):
                    ctx.violation("other:tag_despite_no_tag_commit", f"{at_head}", case=case, observed=desc)
            else:
                ctx.count("tag_checks")
                if at_head != [a]:
                    ctx.violation("other:tag_missing_or_wrong", f"tags at HEAD {at_head}, announced {a!r}", case=case,
                                  observed=desc)
                newest = max(tags_after, key=vkey) if tags_after else None
                in_scope = tags_after if scope != "branch" else git(d, "tag", "--merged", "HEAD").split()
                newest = max(in_scope, key=vkey) if in_scope else None
                if newest is None or vkey(newest) != vkey(a):
                    ctx.violation("other:newest_tag_is_not_the_new_version", f"newest tag in scope {newest!r}, announced {a!r}",
                                  case=case, observed=desc)
            if kind == "allow-dirty" and git(d, "status", "--porcelain").strip():
                git(d, "commit", "-q", "-am", "commit the local edit (user)")
        # final probe: a further update is possible
        if not pending_uncommitted and n_ok and not domain_left:
            ok = False
            tried = []
            two_digit = any(n in names for n in ("YY", "0Y", "GG", "0G"))
            next_year = dt.date(date.year + 1, 1, 5) if date.year < (2098 if two_digit else 9990) else None
            probes = [["--patch"], ["--minor"], ["--major"], ["--tag-num"], ["--tag", "post"], ["--tag", "final"], []]
            unique_refusal = False
            has_max_build = False
            for extra in probes:
                if extra and extra[0] in ("--patch", "--minor", "--major") and extra[0][2:].upper() not in names:
                    continue
                if extra and extra[0].startswith("--tag") and not any(n in names for n in ("TAG", "PYTAG")):
                    continue
                if extra == ["--tag-num"] and "NUM" not in names:
                    continue
                pd = date if extra or next_year is None else next_year
                res = harness.invoke(["update", "--dry", "--no-fetch", "--date", pd.isoformat()] + extra, cwd=d, env=env)
                tried.append((extra, res.exit_code, res.errors()[:1] if res.exit_code else ""))
                if res.exit_code == 0:
                    ok = True
                    break
                if any("must be unique" in e for e in res.errors()):
                    unique_refusal = True
                if res.crash and res.crash.startswith("OverflowError"):
                    has_max_build = True
            has_incrementable = any(n in names for n in ("MAJOR", "MINOR", "PATCH", "INC0", "INC1", "BUILD", "BLD")) or \
                (next_year is not None and any(n in names for n in ("YYYY", "YY", "0Y", "GGGG", "GG", "0G")))
            if ok:
                ctx.count("final_probe_ok")
            elif scope == "branch" and unique_refusal:
                ctx.count("final_probe_refused_by_uniqueness_in_branch_scope")
            elif not has_incrementable or has_max_build:
                ctx.count("final_probe_not_applicable")
            else:
                ctx.violation("other:no_further_update_possible", f"after the history no update is accepted: {tried}",
                              case=case, observed=hist(kinds, proj))
        if n_ok >= 2:
            ctx.count("histories_with_2plus_updates")
        ctx.evaluated((ref.shape(ast), scope, tuple(kinds)) if n_ok >= 2 else None,
                      sample={"pattern": vp, "scope": scope, "steps": kinds, "final_version": proj.cur_text})
    finally:
        harness.rm_dir(d)


def expected_start(ast, tdy, cfg_version, all_tags, merged, scope):
    pool = merged if scope == "branch" else all_tags
    m = [t for t in pool if ref.parse(ast, t) is not None]
    if any(vkey(t) is None for t in m) or vkey(cfg_version) is None:
        return None
    if not m:
        return cfg_version
    best = max(m, key=vkey)
    if scope == "default":
        return cfg_version if vkey(best) <= vkey(cfg_version) else best
    return best


def reload_project(proj, d, tdy):
    """After a checkout the files on disk are those of the other branch: re-locate the occurrences."""
    snap = harness.snapshot(d)
    # find the version of this branch from the config file's own line
    text = snap[proj.cfg_name].decode("utf-8")
    line = [ln for ln in text.splitlines() if ln.startswith("current_version")][0]
    cur = line.split("=", 1)[1].strip().strip('"')
    if cur == proj.cur_text:
        return proj
    st = updates.new_state_from_text(proj.vp, cur, tdy)
    # occurrences on this branch were written by bumpver for `cur`; locate them through the expectation
    probe = projects.Project.__new__(projects.Project)
    probe.__dict__.update(proj.__dict__)
    plants = []
    problems = projects.check_after(proj, {k: v for k, v in snap.items() if k in proj.files}, st, cur, collect=plants)
    if [p for p in problems if not p[0].startswith("pep440")]:
        raise harness.Skip("branch-state-not-derivable")
    return projects.advance(proj, snap, st, cur, plants)


def hist(kinds, proj):
    return {"steps": list(kinds), "pattern": proj.vp, "version_now": proj.cur_text, "entries": proj.entries}

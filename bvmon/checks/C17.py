"""C17 - BUILD numbers grow numerically and lexically forever.

Boundary monitor on successive `bumpver test` outputs (in-process CLI): each new BUILD is compared with the
previous one (integer order, string order, width) and with the independent successor model R3.
"""
import random

from bvmon import harness, ref

SPEC = dict(
    level="exploration",
    rule=("single steps: ALL start ids of 1..4 digits incl. zero-padded (quick, 11,110) / 1..5 digits (thorough, "
          "111,110) + sampled 6-7 digit ids; chains: repeated bumps feeding each output back as the next input, "
          "crossing the digit-length expansions; chains of 8 real `update` runs (config + tags served by a fake git, some releases untagged, v2 and {pycalver}) starting just below an expansion; patterns BUILD, YYYY.BUILD, vYYYY0M.BUILD[-TAG], MAJOR.BLD; "
          "non-trivial+distinct = distinct (len before, len after, zero-padded?, pattern) transitions"),
    assumptions=["R3 (ref.next_build) is the README's lexical-id successor; ids that are all 9s are the documented "
                 "maximum and are only required not to be 'bumped' to a smaller/equal value"],
    required=["update_chains_with_own_line_left_to_bumpver", "single_steps", "chain_steps", "expansion:4->5", "expansion:5->6", "expansion:6->7", "expansion:7->8",
              "chain_steps_with_other_flags", "update_chain_steps", "update_chain_untagged_releases"],
    anchors=[("v2version", "_incr_numeric"), ("v2version", "parse_field_values_to_vinfo"), ("v2patterns", "_fmt_bld")],
    exhaustive={"quick": True, "thorough": True},
    exhaustive_note="start ids of 1..4 (quick) / 1..5 (thorough) digits are enumerated completely; chains and 6-7 digit "
                    "ids are sampled",
)

PATTERNS = [("BUILD", "{b}"), ("YYYY.BUILD", "2021.{b}"), ("vYYYY0M.BUILD[-TAG]", "v202103.{b}-beta"),
            ("MAJOR.BUILD", "3.{b}")]


def cases(ctx):
    maxd = 4 if ctx.quick else 5
    ids = []
    for w in range(1, maxd + 1):
        for v in range(10 ** w):
            ids.append(str(v).zfill(w))
    for k, b in enumerate(ids):
        if ctx.mine(k):
            yield {"kind": "step", "start": b, "pat": k % len(PATTERNS)}
    R = ctx.rng
    for _ in range(ctx.size(640, 16000)):
        w = R.choice([6, 7])
        yield {"kind": "step", "start": str(R.randint(0, 10 ** w - 1)).zfill(w), "pat": R.randrange(len(PATTERNS))}
    # fixed chains that cross every digit-length expansion, whatever the seed
    fixed = ["1", "0001", "0990", "1990", "19990", "199990", "8990", "98990", "00001", "09", "1999990", "0999990",
             "8999990", "4999990"]
    for k, b in enumerate(fixed):
        if ctx.mine(k):
            yield {"kind": "chain", "start": b, "steps": 60, "pat": k % len(PATTERNS), "bld": False}
    # successive `bumpver update` runs (config + tags served by a fake git, some releases left untagged), starting
    # just below a digit-length expansion
    k = 0
    for start in ("0997", "997", "09997", "9997", "1997", "0097", "18997", "97"):
        for upat in range(len(UPDATE_PATTERNS)):
            for variant in range(2 if ctx.quick else 8):
                if ctx.mine(k):
                    yield {"kind": "update-chain", "start": start, "upat": upat, "variant": variant}
                k += 1
    n_chains = ctx.size(16, 64)
    for _ in range(n_chains):
        start = R.choice(["1", "0001", "0999", "1000", "999", "09", "8990", "19990", "98", "00001", "1990", "0000",
                          str(R.randint(0, 9999)).zfill(R.choice([1, 2, 3, 4]))])
        yield {"kind": "chain", "start": start, "steps": 2000 if ctx.quick else 10000, "pat": R.randrange(len(PATTERNS)),
               "bld": R.random() < 0.25}


EXTRA_FLAGS = {
    "vYYYY0M.BUILD[-TAG]": [[], [], ["--pin-increments"], ["--pin-increments", "--tag", "rc"], ["--tag", "beta"],
                            ["--pin-increments", "--tag", "beta"]],
    "MAJOR.BUILD": [[], [], ["--major"], ["--major", "--pin-increments"]],
    "YYYY.BUILD": [[], [], ["--pin-increments"]],
    "BUILD": [[], ["--pin-increments"]],
}


def step(ctx, pat, tmpl, b, extra=()):
    """one real bump; returns new BUILD text or None"""
    old = tmpl.format(b=b)
    res = harness.invoke(["test", old, pat, "--pin-date"] + list(extra))
    if res.exit_code != 0:
        return None, res
    new = res.stdout_value("New Version: ")
    pre, _, post = tmpl.partition("{b}")
    if extra and new:
        # other parts may change as well: read the BUILD part through the pattern
        raw = ref.parse(ref.parse_pattern(pat), new)
        got = [t for n, t in (raw or []) if n == "BUILD"]
        return (got[0] if got else None), res
    if not new or not new.startswith(pre) or not new.endswith(post):
        return None, res
    return new[len(pre):len(new) - len(post)] if post else new[len(pre):], res


def judge(ctx, case, b, nb, res, generated, successor=None):
    if set(b) == {"9"}:
        if nb is not None and not (nb.isdigit() and int(nb) > int(b)):
            ctx.violation("other:max_id_bumped_to_non_greater", f"{b!r} -> {nb!r}", case=case)
        ctx.count("max_ids")
        return
    try:
        exp = (successor or ref.next_build)(b)
    except OverflowError:
        exp = None
    if nb is None:
        if exp is not None:
            ctx.violation("other:bump_refused", f"BUILD {b!r}: expected {exp!r}, bumpver refused: {res.brief()}", case=case)
        return
    cls = None
    if not nb.isdigit():
        cls = ("other:non_numeric_build", f"{b!r} -> {nb!r}")
    elif int(nb) <= int(b):
        cls = ("other:not_greater_as_integer", f"{b!r} -> {nb!r}")
    elif (generated or len(b) >= 4) and not nb > b:
        cls = ("other:not_greater_as_string", f"{b!r} -> {nb!r}")
    elif len(nb) < len(b):
        cls = ("zero_padded_id_below_1000_loses_width", f"{b!r} -> {nb!r}: width {len(b)} -> {len(nb)} (leading zeros lost)")
    elif exp is not None and nb != exp:
        cls = ("other:differs_from_lexid_successor", f"{b!r} -> {nb!r}, model {exp!r}")
    if cls:
        ctx.violation(cls[0], cls[1], case=case)
    if len(nb) > len(b):
        ctx.count(f"expansion:{len(b)}->{len(nb)}")


UPDATE_PATTERNS = [("vYYYY.BUILD", "v2021.{b}", False), ("YYYY0M.BUILD[-TAG]", "202103.{b}-beta", False),
                   ("{pycalver}", "v202103.{b}-beta", True), ("MAJOR.BUILD", "3.{b}", False)]


def run_update_chain(ctx, case):
    import os
    pat, tmpl, legacy = UPDATE_PATTERNS[case["upat"]]
    b = case["start"]
    if legacy and len(b) < 4:
        raise harness.Skip("legacy-build-has-4-digits")
    R = random.Random(f"u:{case['start']}:{case['upat']}:{case['variant']}")
    scope = R.choice(["default", "default", "global"]) if not legacy else "default"
    cur = tmpl.format(b=b)
    cfg = (f'[bumpver]\ncurrent_version = "{cur}"\nversion_pattern = "{pat}"\ncommit = true\ntag = true\npush = false\n'
           + (f'tag_scope = "{scope}"\n' if scope != "default" else "")
           + '\n[bumpver.file_patterns]\n"bumpver.toml" = [\'current_version = "{version}"\']\n')
    if case["variant"] % 2 == 1:
        # the config file lists itself for ANOTHER of its lines only; the current_version line is left to bumpver - the
        # chain is read back from that line
        cfg = f"# released as {cur} !\n" + cfg.replace('[\'current_version = "{version}"\']', '["released as {version} !"]')
        ctx.count("update_chains_with_own_line_left_to_bumpver")
    d = harness.new_project({"bumpver.toml": cfg})
    fake = harness.FakeVCS(d, "git")
    tags = [cur]
    generated = False
    try:
        fake.set_out("status", "")
        for i in range(8):
            tagged = scope != "default" or R.random() < 0.6
            fake.set_out("tag-list", "".join(t + "\n" for t in tags))
            fake.set_out("tag-merged", "".join(t + "\n" for t in tags))
            args = ["update", "--no-fetch", "--date", "2021-03-04"] + ([] if tagged else ["--no-tag-commit"])
            res = harness.invoke(args, cwd=d, env=fake.env)
            new = res.record_value("New Version: ") if res.exit_code == 0 else None
            nb = None
            if new:
                if legacy:
                    from bvmon import ref_v1
                    raw = ref_v1.parse(ref_v1.parse_pattern(pat), new)
                    nb = (raw or {}).get("bid") if isinstance(raw, dict) else None
                    if nb is None:
                        import re
                        m = re.match(r"v\d{6}\.(\d+)", new)
                        nb = m.group(1) if m else None
                else:
                    raw = ref.parse(ref.parse_pattern(pat), new)
                    nbs = [t for n, t in (raw or []) if n == "BUILD"]
                    nb = nbs[0] if nbs else None
            ctx.count("update_chain_steps")
            if not tagged:
                ctx.count("update_chain_untagged_releases")
            ctx.evaluated((len(b), len(nb) if nb else -1, b[0] == "0", pat, "update-chain", tagged))
            succ = None
            if legacy:
                from bvmon import ref_v1
                succ = ref_v1.next_bid      # the legacy engine keeps ids below 1000 as they are (plain lexical successor)
            judge(ctx, dict(case, at=b, step=i, tags=list(tags), argv=args), b, nb, res, generated, successor=succ)
            if nb is None:
                break
            with open(os.path.join(d, "bumpver.toml")) as f:
                if f'current_version = "{new}"' not in f.read():
                    ctx.violation("other:config_not_updated_in_update_chain", f"{args}: announced {new!r}", case=case)
                    break
            if tagged:
                tags.append(new)
            b = nb
            generated = True
            fake.reset()
    finally:
        harness.rm_dir(d)
        fake.destroy()


def run_case(ctx, case):
    if case["kind"] == "update-chain":
        return run_update_chain(ctx, case)
    pat, tmpl = PATTERNS[case["pat"]]
    if case["kind"] == "step":
        b = case["start"]
        nb, res = step(ctx, pat, tmpl, b)
        ctx.count("single_steps")
        ctx.evaluated((len(b), len(nb) if nb else -1, b[0] == "0", pat), sample={"pattern": pat, "old": tmpl.format(b=b), "new_build": nb})
        judge(ctx, case, b, nb, res, generated=False)
        return
    b = case["start"]
    if case.get("bld"):
        pat, tmpl = "YYYY.BLD", "2021.{b}"
        b = str(int(b) or 1)
    generated = False
    trail = [b]
    R = random.Random(f"{case['start']}:{case['pat']}")
    cur_version = None
    for i in range(case["steps"]):
        extra = R.choice(EXTRA_FLAGS.get(pat, [[]])) if not case.get("bld") else []
        if extra:
            # feed the full previous output back (the tag / MAJOR part may have changed)
            old = cur_version or tmpl.format(b=b)
            res = harness.invoke(["test", old, pat, "--pin-date"] + extra)
            new = res.stdout_value("New Version: ") if res.exit_code == 0 else None
            raw = ref.parse(ref.parse_pattern(pat), new) if new else None
            nbs = [t for n, t in (raw or []) if n == "BUILD"]
            nb = nbs[0] if nbs else None
            if extra == ["--pin-increments"] and nb is None and res.exit_code != 0:
                # nothing but BUILD could change and BUILD is not an INC part: a refusal here means BUILD was pinned
                pass
            if new:
                cur_version = new
            ctx.count("chain_steps_with_other_flags")
        elif cur_version is not None:
            res = harness.invoke(["test", cur_version, pat, "--pin-date"])
            new = res.stdout_value("New Version: ") if res.exit_code == 0 else None
            raw = ref.parse(ref.parse_pattern(pat), new) if new else None
            nbs = [t for n, t in (raw or []) if n == "BUILD"]
            nb = nbs[0] if nbs else None
            if new:
                cur_version = new
        else:
            nb, res = step(ctx, pat, tmpl, b)
        ctx.count("chain_steps")
        ctx.evaluated((len(b), len(nb) if nb else -1, b[0] == "0", pat, "chain"))
        judge(ctx, dict(case, at=b, step=i), b, nb, res, generated)
        if nb is None:
            if set(b) != {"9"}:
                ctx.count("chain_stopped_early")
            break
        b = nb
        generated = True
        if len(trail) < 6:
            trail.append(b)
    ctx.samples.append({"chain_start": case["start"], "pattern": pat, "first_values": trail, "last": b})

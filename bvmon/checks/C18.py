"""C18 - the same configuration means the same thing in every config format.

Reference model R8: one abstract configuration value is serialised to every syntax (pyproject.toml
[tool.bumpver]; bumpver.toml / .bumpver.toml [bumpver]; setup.cfg [bumpver] + [bumpver:file_patterns], quoted
and unquoted; legacy [pycalver] in setup.cfg and pycalver.toml). Monitors: the Config each sibling project loads
(config.init) field by field against each other and against the abstract value; `bumpver show` and
`bumpver update --dry` output of the siblings.
"""
import random

from bvmon import gen, harness, projects, ref, updates

SPEC = dict(
    level="exploration",
    rule=("abstract configurations: version pattern (grammar G or legacy), current version, optional commit/tag "
          "messages, tag scope, hooks, commit/tag/push (tag and push only with commit) in every accepted boolean "
          "spelling, 0..6 files x 1..4 search patterns, glob entries, missing optional keys; each serialised to 7 "
          "syntaxes; non-trivial+distinct = distinct (optional keys present, boolean spelling class, quoting, #files, "
          "#patterns, glob?, legacy pattern?) tuples"),
    assumptions=["values are expressible in both syntaxes: no leading/trailing space or quote, no '#'/';' at the start "
                 "of a pattern, no '=' or ':' in file names, one-line values",
                 "R8 (function effective() below) states the expected settings: missing booleans are False, "
                 "default messages/scope as documented"],
    required=["sibling_sets", "loads_compared", "show_compared", "dry_update_compared", "bool_spelling:yes",
              "bool_spelling:on", "bool_spelling:1", "bool_spelling:TRUE", "bool_spelling:no", "glob_entries",
              "legacy_section_loads", "explicit_self_entries_with_extra_pattern", "ini_layout:inline", "ini_layout:mixed",
              "configs_without_file_patterns_section", "ini_mixed_quoting", "ini_quoted_booleans", "toml_string_booleans", "toml_single_pattern_as_string", "configs_with_indented_keys", "ini_booleans_on_a_continuation_line", "ini_header_comment_with_brackets"],
    anchors=[("config", "_parse_cfg"), ("config", "_parse_toml"), ("config", "_parse_config"),
             ("config", "_parse_cfg_file_patterns"), ("config", "_iter_glob_expanded_file_patterns"),
             ("config", "_parse_raw_config")],
)

TRUE_SPELLINGS = ["yes", "true", "1", "on", "True", "TRUE", "Yes", "ON"]
FALSE_SPELLINGS = ["no", "false", "0", "off", "False", "NO"]
SYNTAXES = [("pyproject.toml", "toml", "tool.bumpver"), ("bumpver.toml", "toml", "bumpver"),
            (".bumpver.toml", "toml", "bumpver"), ("setup.cfg", "cfg-quoted", "bumpver"),
            ("setup.cfg", "cfg-unquoted", "bumpver"), ("setup.cfg", "cfg-mixed", "bumpver"),
            ("setup.cfg", "cfg-legacy", "pycalver"),
            ("pycalver.toml", "toml", "pycalver")]
MSGS = ["bump version {old_version} -> {new_version}", "release {new_version}", "100% done: {new_version}",
        "pct %% and %(name)s in {new_version}", "bump: {old_version} to {new_version} (pep {new_version_pep440})",
        "chore(release): {new_version}", "v{new_version}"]
DECOR = [('__version__ = "{version}"'), ("version='{version}'"), ("tag: {version}"), ("pkg=={pep440_version}"),
         ("badge/latest%20version-{version}-blue"), ("100%% {version}"),
         ("badge/{version}-blue"), ("{version}"), ("rev {version};"),
         # a docstring line and a CSV cell: as TOML basic strings they start with escaped quotes / with a comma
         ('"""mypkg {version}"""'), (",{version},"),
         # escaped brackets (a markdown link text): given as ONE TOML string it must not be looked at character by character
         ("see \\[{version}\\] notes")]


def cases(ctx):
    for _ in range(ctx.size(640, 30000)):
        yield {"seed": ctx.rng.getrandbits(48)}


def gen_abstract(R, tdy):
    legacy = R.random() < 0.15
    if legacy:
        from bvmon import ref_v1
        import datetime as dt
        vp = R.choice(["{pycalver}", "{semver}", "v{year}{month}{build}{release}"])
        ast = ref_v1.parse_pattern(vp)
        st = ref_v1.state_from_date(dt.date(2021, 3, 4), "1001", R.choice(["final", "beta"]), 1, 2, 3)
        cur = ref_v1.render(ast, st)
        names = []
    else:
        for _ in range(20):
            vp = gen.gen_pattern(R, decorate=False, pep_bias=True)
            if " " not in vp and "_" not in vp:
                break
        ast = ref.parse_pattern(vp)
        names = list(ref.parts_in(ast))
        _d, st0 = gen.gen_state(R, names)
        rs = gen.reachable(ast, st0, tdy)
        if rs is None or ref.n_full_parses(ast, rs[0]) != 1 or projects._week53(names, rs[1]):
            raise harness.Skip("unusable-start")
        cur = rs[0]
    a = {"vp": vp, "cur": cur, "legacy": legacy}
    if R.random() < 0.6:
        a["commit_message"] = R.choice(MSGS)
    if R.random() < 0.5:
        a["tag_message"] = R.choice(MSGS + [""])
    if R.random() < 0.5:
        a["tag_scope"] = R.choice(["default", "global", "branch"])
    r = R.random()
    if r < 0.25:
        pass                       # no booleans at all
    elif r < 0.5:
        a["commit"] = False
        if R.random() < 0.5:
            a["tag"] = False
        if R.random() < 0.5:
            a["push"] = False
    else:
        a["commit"] = True
        if R.random() < 0.7:
            a["tag"] = R.random() < 0.6
        if R.random() < 0.7:
            a["push"] = R.random() < 0.5
    if R.random() < 0.3:
        a["pre_commit_hook"] = "scripts/pre.sh"
    if R.random() < 0.3:
        a["post_commit_hook"] = "scripts/post.sh"
    nfiles = R.choice([0, 1, 1, 2, 3, 4, 6])
    fnames = R.sample(["a.txt", "b.md", "src/pkg/__init__.py", "docs/conf.py", "c.rst", "d.json", "e.yaml"], nfiles)
    entries = []
    for fn in fnames:
        pool = [p for p in DECOR if not (legacy and "pep440" in p and vp != "{pycalver}")]
        pats = R.sample(pool, R.randint(1, min(4, len(pool))))
        key = fn
        if R.random() < 0.2 and "/" not in fn:
            key = fn.split(".")[0] + ".*"
        entries.append((key, fn, pats))
    a["entries"] = entries
    # the config file may list itself, with a second pattern for another line of the config file
    a["self_entry"] = R.choice([None, None, "default-only", "with-extra", "with-extra"])
    # no configured file at all: the (empty) file_patterns section may be left out entirely
    a["omit_empty_file_patterns_section"] = R.random() < 0.6
    a["indent_keys"] = R.random() < 0.2
    a["header_comment"] = R.random() < 0.2      # a comment (with brackets in it) after the file_patterns header
    return a


def serialise(a, syntax, R):
    fname, kind, sect = syntax
    lines = []
    spelled = {}
    if a.get("self_entry") == "with-extra":
        lines.append(f"# released as {a['cur']} !")
    if kind == "toml":
        q = projects.toml_str
        lines += [f"[{sect}]", f"current_version = {q(a['cur'])}", f"version_pattern = {q(a['vp'])}"]
        for k in ("commit_message", "tag_message", "tag_scope", "pre_commit_hook", "post_commit_hook"):
            if k in a:
                lines.append(f"{k} = {q(a[k])}")
        for k in ("commit", "tag", "push"):
            if k in a:
                if fname == "bumpver.toml" and R.random() < 0.25:
                    # the setup.cfg spellings, written as TOML strings (what a config moved over from setup.cfg holds)
                    sp = R.choice(TRUE_SPELLINGS if a[k] else FALSE_SPELLINGS)
                    lines.append(f'{k} = "{sp}"')
                    spelled["toml_string_boolean"] = 1
                else:
                    lines.append(f"{k} = {'true' if a[k] else 'false'}")
        if a["entries"] or a.get("self_entry") or not a.get("omit_empty_file_patterns_section"):
            lines += ["", f"[{sect}.file_patterns]" + ("  # files to rewrite [see docs]" if a.get("header_comment") else "")]
        if a.get("self_entry"):
            own = ['current_version = "{version}"'] + (["released as {version} !"] if a["self_entry"] == "with-extra" else [])
            lines.append(f"{q(fname)} = [" + ", ".join(q(p) for p in own) + "]")
        for key, _fn, pats in a["entries"]:
            if len(pats) == 1 and fname == ".bumpver.toml" and R.random() < 0.5:
                # ONE pattern written as a plain TOML string (the counterpart of setup.cfg's `file = pattern` line)
                lines.append(f"{q(key)} = {q(pats[0])}")
                spelled["toml_single_pattern_as_string"] = 1
            else:
                lines.append(f"{q(key)} = [" + ", ".join(q(p) for p in pats) + "]")
    else:
        quoted = kind != "cfg-unquoted"
        qq = (lambda s: '"' + s + '"') if quoted else (lambda s: s)
        if kind == "cfg-mixed":
            # every value decides for itself whether it is written with quotes; current_version and version_pattern
            # always differ (the interesting combination for the config file's own line)
            quoted = R.random() < 0.5
            qq = lambda s: ('"' + s + '"') if R.random() < 0.5 else s  # noqa: E731
            qcur = (lambda s: '"' + s + '"') if quoted else (lambda s: s)
            qvp = (lambda s: s) if quoted else (lambda s: '"' + s + '"')
            lines += [f"[{sect}]", f"current_version = {qcur(a['cur'])}", f"version_pattern = {qvp(a['vp'])}"]
            spelled["mixed_quoting"] = 1
        else:
            lines += [f"[{sect}]", f"current_version = {qq(a['cur'])}", f"version_pattern = {qq(a['vp'])}"]
        for k in ("commit_message", "tag_message", "tag_scope", "pre_commit_hook", "post_commit_hook"):
            if k in a:
                v = a[k]
                if v == "" and not quoted:
                    v = '""'
                    lines.append(f"{k} = {v}")
                else:
                    lines.append(f"{k} = {qq(v)}")
        for k in ("commit", "tag", "push"):
            if k in a:
                sp = R.choice(TRUE_SPELLINGS if a[k] else FALSE_SPELLINGS)
                spelled[k] = sp
                if kind == "cfg-mixed" and R.random() < 0.4:
                    # quotes are optional around every setup.cfg value, the booleans included
                    if R.random() < 0.4:
                        lines.append(f"{k} =")
                        lines.append(f'    "{sp}"')        # ... also when the value stands on a continuation line
                        spelled["continuation_boolean"] = 1
                    else:
                        lines.append(f'{k} = "{sp}"')
                    spelled["quoted_boolean"] = 1
                elif kind == "cfg-unquoted" and R.random() < 0.3:
                    # the value on a continuation line (the layout the file patterns of the same file use)
                    lines.append(f"{k} =")
                    lines.append(f"    {sp}")
                    spelled["continuation_boolean"] = 1
                else:
                    lines.append(f"{k} = {sp}")
        if a["entries"] or a.get("self_entry") or not a.get("omit_empty_file_patterns_section"):
            lines += ["", f"[{sect}:file_patterns]" + ("  # files to rewrite [see docs]" if a.get("header_comment") else "")]
            if a.get("header_comment"):
                spelled["bracket_in_header_comment"] = 1
        if a.get("self_entry"):
            lines.append(f"{fname} =")
            lines.append("    current_version = " + ('"{version}"' if quoted else "{version}"))
            if a["self_entry"] == "with-extra":
                lines.append("    released as {version} !")
        for key, _fn, pats in a["entries"]:
            # all three layouts configparser accepts: patterns on continuation lines only; a single pattern on the
            # key's own line; first pattern on the key line and the others on continuation lines
            layout = R.choice(["standard", "standard", "inline", "mixed"])
            if layout == "standard" or (layout == "inline" and len(pats) > 1 and R.random() < 0.5):
                lines.append(f"{key} =")
                for p in pats:
                    lines.append(f"    {p}")
                spelled["layout:standard"] = 1
            else:
                lines.append(f"{key} = {pats[0]}")
                for p in pats[1:]:
                    lines.append(f"    {p}")
                spelled["layout:" + ("inline" if len(pats) == 1 else "mixed")] = 1
    if a.get("indent_keys"):
        # the keys of the main section indented under its header (ordinary TOML style; uniformly indented keys are
        # legal for configparser as well)
        out, inside = [], False
        for ln in lines:
            if ln.startswith("["):
                inside = ln == f"[{sect}]"
            elif inside and ln and not ln.startswith("#"):
                ln = "    " + ln
            out.append(ln)
        lines = out
        spelled["indented_keys"] = 1
    return fname, "\n".join(lines) + "\n", spelled


def effective(a):
    """R8: expected effective settings"""
    return {
        "current_version": a["cur"], "version_pattern": a["vp"],
        "commit_message": a.get("commit_message", "bump version to {new_version}"),
        "tag_message": a.get("tag_message", "{new_version}"),
        "tag_scope": a.get("tag_scope", "default"),
        "pre_commit_hook": a.get("pre_commit_hook", ""), "post_commit_hook": a.get("post_commit_hook", ""),
        "commit": bool(a.get("commit", False)), "tag": bool(a.get("tag", False)), "push": bool(a.get("push", False)),
        "is_new_pattern": not a["legacy"],
    }


def cfg_fields(cfg):
    return {
        "current_version": cfg.current_version, "version_pattern": cfg.version_pattern,
        "commit_message": cfg.commit_message, "tag_message": cfg.tag_message, "tag_scope": cfg.tag_scope.value,
        "pre_commit_hook": cfg.pre_commit_hook, "post_commit_hook": cfg.post_commit_hook,
        "commit": cfg.commit, "tag": cfg.tag, "push": cfg.push, "is_new_pattern": cfg.is_new_pattern,
    }


def run_case(ctx, case):
    R = random.Random(case["seed"])
    harness.bv()
    import bumpver.config as bvconfig
    tdy = updates.today()
    a = gen_abstract(R, tdy)
    exp = effective(a)
    # project files shared by all siblings: every configured file holds one occurrence per pattern
    shared = {"scripts/pre.sh": "#!/bin/sh\n", "scripts/post.sh": "#!/bin/sh\n"}
    mods = updates.bvmods()
    for key, fn, pats in a["entries"]:
        lines = ["header"]
        for p in pats:
            if "{pep440_version}" in p:
                occ = p.replace("{pep440_version}", mods["version"].to_pep440(a["cur"]))
            else:
                occ = p.replace("{version}", a["cur"])
            lines += [occ, "filler"]
        shared[fn] = "\n".join(lines) + "\n"
    results = []
    for syntax in SYNTAXES:
        fname, text, spelled = serialise(a, syntax, R)
        files = dict(shared)
        files[fname] = text
        d = harness.new_project(files)
        try:
            import os
            old = os.getcwd()
            os.chdir(d)
            try:
                _ctx, cfg = harness.call(bvconfig.init, project_path=".")
            finally:
                os.chdir(old)
            show = harness.invoke(["show", "--no-fetch"], cwd=d)
            dry = harness.invoke(["update", "--dry", "--no-fetch", "--date", "2031-05-06"] +
                                 (["--patch"] if ("PATCH" in a["vp"] or "semver" in a["vp"]) else []), cwd=d)
            results.append({"syntax": syntax, "cfg": cfg, "show": show, "dry": dry, "text": text, "spelled": spelled,
                            "fname": fname})
        finally:
            harness.rm_dir(d)
    ctx.count("sibling_sets")
    for r in results:
        for k, sp in r["spelled"].items():
            if k.startswith("layout:"):
                ctx.count("ini_" + k)
            elif k == "mixed_quoting":
                ctx.count("ini_mixed_quoting")
            elif k == "quoted_boolean":
                ctx.count("ini_quoted_booleans")
            elif k == "toml_string_boolean":
                ctx.count("toml_string_booleans")
            elif k == "toml_single_pattern_as_string":
                ctx.count("toml_single_pattern_as_string")
            elif k == "indented_keys":
                ctx.count("configs_with_indented_keys")
            elif k == "continuation_boolean":
                ctx.count("ini_booleans_on_a_continuation_line")
            elif k == "bracket_in_header_comment":
                ctx.count("ini_header_comment_with_brackets")
            else:
                ctx.count("bool_spelling:" + sp)
    if any("*" in key for key, _f, _p in a["entries"]):
        ctx.count("glob_entries")
    if not a["entries"] and not a.get("self_entry") and a["omit_empty_file_patterns_section"]:
        ctx.count("configs_without_file_patterns_section")
    ntk = (tuple(sorted(k for k in a if k not in ("vp", "cur", "entries", "legacy", "omit_empty_file_patterns_section"))), len(a["entries"]),
           sum(len(p) for _k, _f, p in a["entries"]), any("*" in k for k, _f, _p in a["entries"]), a["legacy"])
    ctx.evaluated(ntk, sample={"abstract": {k: v for k, v in a.items()}, "one_serialisation": results[3]["text"][:500]})
    desc = {"abstract": a, "texts": {f"{r['syntax'][0]}:{r['syntax'][1]}": r["text"] for r in results}}
    base = None
    for r in results:
        tag = f"{r['syntax'][0]}[{r['syntax'][1]}]"
        cfg = r["cfg"]
        if cfg is None:
            ctx.violation("other:sibling_not_loadable", f"{tag}: configuration could not be loaded: "
                          f"{r['show'].errors()[-2:]}", case=case, observed=desc)
            continue
        ctx.count("loads_compared")
        if r["syntax"][2] == "pycalver":
            ctx.count("legacy_section_loads")
        got = cfg_fields(cfg)
        diff = {k: (got[k], exp[k]) for k in exp if got[k] != exp[k]}
        if diff:
            ctx.violation("other:settings_differ_from_abstract_value", f"{tag}: {diff}", case=case, observed=desc)
        fps = {(fn, p.raw_pattern) for fn, pats in cfg.file_patterns.items() for p in pats if fn != r["fname"]}
        want = {(fn, projects.normalize(mods, a["vp"], p, a["legacy"])) for _k, fn, pats in a["entries"] for p in pats}
        if fps != want:
            ctx.violation("other:file_patterns_differ", f"{tag}: loaded {sorted(fps)} expected {sorted(want)}", case=case,
                          observed=desc)
        own = cfg.file_patterns.get(r["fname"])
        cv_line = [ln for ln in r["text"].splitlines() if ln.strip().startswith("current_version")][0]
        if a.get("self_entry") == "with-extra":
            ctx.count("explicit_self_entries_with_extra_pattern")
            norm_extra = projects.normalize(mods, a["vp"], "released as {version} !", a["legacy"])
            if not own or norm_extra not in [p.raw_pattern for p in own]:
                ctx.violation("other:explicit_self_entry_lost", f"{tag}: the config file lists itself with the extra "
                              f"pattern 'released as {{version}} !', loaded: {[p.raw_pattern for p in own or []]}",
                              case=case, observed=desc)
        if not own or not any(p.regexp.search(cv_line) for p in own):
            ctx.violation("other:own_current_version_line_missing", f"{tag}: patterns for the config file itself: "
                          f"{[p.raw_pattern for p in own or []]} do not match {cv_line!r}", case=case, observed=desc)
        sv = (r["show"].exit_code, r["show"].stdout)
        dv = (r["dry"].exit_code, r["dry"].record_value("Old Version: "), r["dry"].record_value("New Version: "),
              strip_cfg_diff(r["dry"].stdout, r["fname"]))
        if base is None:
            base = (tag, sv, dv)
        else:
            ctx.count("show_compared")
            ctx.count("dry_update_compared")
            if sv != base[1]:
                ctx.violation("other:show_differs_between_formats", f"{tag}: {sv} vs {base[0]}: {base[1]}", case=case,
                              observed=desc)
            if dv != base[2]:
                ctx.violation("other:dry_update_differs_between_formats", f"{tag}: {dv} vs {base[0]}: {base[2]}",
                              case=case, observed=desc)


def strip_cfg_diff(stdout, cfg_name):
    """the diff printed by --dry with the config file's own section removed (name/syntax differ by design)"""
    out = []
    skip = False
    for ln in stdout.split("\n"):
        if ln.startswith("--- "):
            skip = ln[4:] == cfg_name
        if not skip:
            out.append(ln)
    return "\n".join(x for x in out if x != "")

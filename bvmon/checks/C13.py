"""C13 - `--dry` changes nothing and shows exactly what a real run would do.

Monitors: snapshot + audit write-set + fake-VCS event log around `bumpver update --dry`; the printed unified
diff is parsed by a strict, independent applier (R5) and applied to the current files; then the real run with
identical arguments must exit 0 and produce exactly those files.
"""
import random
import re

from bvmon import core, harness, projects, updates

SPEC = dict(
    level="exploration",
    rule=("cases = generated projects (as for C03/C04, one line-ending style per file: LF, CRLF or CR; plain and "
          "Unicode surrounding text; with/without final newline) x flag sets (predicted to succeed, or random) x v2 "
          "and legacy patterns x commit off / on (fake git); non-trivial+distinct = distinct (#files changed, "
          "max hunks per file, EOL set, engine, commit) tuples of dry runs that exit 0"),
    assumptions=["R5 (strict unified-diff parser/applier in this module) is independent of difflib",
                 "files use one line-ending style each (the statement's domain)"],
    required=["dry_ok_and_applied", "files_with_terminal_control_sequences", "multi_file_diffs", "engine:v1", "engine:v2", "dry_failed_nothing_changed",
              "commit_on_runs", "unaffected_file_cases", "fault_cases", "message_template_cases",
              "fetch_brings_newer_tag_cases", "dirty_tree_cases"],
    anchors=[("cli", "_print_diff"), ("v2rewrite", "diff"), ("v1rewrite", "diff"), ("rewrite", "diff_lines"),
             ("v2rewrite", "rewrite_files")],
)

HUNK = re.compile(r"^@@ -(\d+)(?:,(\d+))? \+(\d+)(?:,(\d+))? @@$")


class DiffError(Exception):
    pass


def parse_diff(text):
    """Strict unified diff parser: {path: [(old_start, old_lines, new_lines)]}; blank lines between files allowed."""
    lines = text.split("\n")
    i = 0
    out = {}
    while i < len(lines):
        if lines[i] == "":
            i += 1
            continue
        if not lines[i].startswith("--- "):
            raise DiffError(f"expected '--- path' at line {i}: {lines[i]!r}")
        path = lines[i][4:]
        if i + 1 >= len(lines) or lines[i + 1] != "+++ " + path:
            raise DiffError(f"expected '+++ {path}' at line {i + 1}")
        i += 2
        hunks = []
        while i < len(lines) and lines[i].startswith("@@"):
            m = HUNK.match(lines[i])
            if not m:
                raise DiffError(f"bad hunk header {lines[i]!r}")
            a = int(m.group(1))
            b = int(m.group(2)) if m.group(2) is not None else 1
            d = int(m.group(4)) if m.group(4) is not None else 1
            i += 1
            old, new = [], []
            while len(old) < b or len(new) < d:
                if i >= len(lines):
                    raise DiffError("hunk truncated")
                ln = lines[i]
                tag, body = ln[:1], ln[1:]
                if tag == " ":
                    old.append(body)
                    new.append(body)
                elif tag == "-":
                    old.append(body)
                elif tag == "+":
                    new.append(body)
                else:
                    raise DiffError(f"bad hunk line {ln!r}")
                i += 1
            if len(old) != b or len(new) != d:
                raise DiffError("hunk counts do not add up")
            hunks.append((a, old, new))
        if path in out:
            raise DiffError(f"file {path} twice")
        out[path] = hunks
    return out


def apply_diff(files, eols, diff):
    """files: {path: str}. Returns new {path: str}. Context must match exactly."""
    out = dict(files)
    for path, hunks in diff.items():
        if path not in files:
            raise DiffError(f"diff for unknown file {path}")
        eol = eols[path]
        lines = files[path].split(eol)
        res = []
        pos = 0
        for a, old, new in hunks:
            start = a - 1 if old else a
            if start < pos:
                raise DiffError("overlapping hunks")
            res.extend(lines[pos:start])
            if lines[start:start + len(old)] != old:
                raise DiffError(f"context mismatch in {path} at line {a}: {lines[start:start + len(old)]!r} vs {old!r}")
            res.extend(new)
            pos = start + len(old)
        res.extend(lines[pos:])
        out[path] = eol.join(res)
    return out


def cases(ctx):
    n = ctx.size(1600, 40000)
    for i in range(n):
        yield {"pseed": ctx.rng.getrandbits(48), "legacy": i % 5 == 4, "commit": i % 4 == 0, "unicode": i % 3 == 0,
               "random_flags": i % 6 == 5, "fault": i % 7 == 3, "fetch": i % 8 == 4, "dirty": i % 12 == 8}
    # files whose patterns do not depend on the part that changes (a `series MAJOR.x` line during a --patch bump),
    # intact and with the occurrence destroyed: dry and real run must agree there too
    k = 0
    for vp, cur, flag in (("MAJOR.MINOR.PATCH", "1.2.3", "--patch"), ("vMAJOR.MINOR.PATCH[-TAG]", "v2.0.9-beta", "--patch"),
                          ("MAJOR.MINOR.PATCH", "0.9.9", "--minor"), ("YYYY.MM.PATCH", "2021.5.1", "--patch")):
        for partial, ok_text in (("series MAJOR.x", None), ("copyright YYYY", None), ("compat >=MAJOR.MINOR", None)):
            for destroyed in (False, True):
                for commit in (False, True):
                    if ctx.mine(k):
                        yield {"kind": "unaffected", "vp": vp, "cur": cur, "flag": flag, "partial": partial,
                               "destroyed": destroyed, "commit": commit}
                    k += 1
    for eol in ("\n", "\r\n"):
        if ctx.mine(k):
            yield {"kind": "tty", "eol": eol}
        k += 1
    for vp, cur, flag, new in (("MAJOR.MINOR.PATCH", "1.2.3", "--patch", "1.2.4"), ("vMAJOR.MINOR.PATCH[-TAG]", "v2.0.9-beta", "--minor", "v2.1.0-beta")):
        for li in range(len(ANSI_LINES)):
            for eol in ("\n", "\r\n"):
                if ctx.mine(k):
                    yield {"kind": "ansi", "vp": vp, "cur": cur, "flag": flag, "new": new, "line": li, "eol": eol}
                k += 1


EOL_OF = {"LF": "\n", "CRLF": "\r\n", "CR": "\r"}

# lines with terminal control sequences (a coloured banner in a shell script): the printed diff has to carry them
ANSI_LINES = [('echo "\x1b[1;32mMyTool v{v}\x1b[0m"', "MyTool v{version}"), ('\x1b[31mversion {v}\x1b[0m', "version {version}"),
              ('printf "\x1b[2K\x1b[?25l{v}\x1b[0m\\n"', "l{version}")]


def run_tty(ctx, case):
    """what `--dry` prints on a TERMINAL (coloured) is, colour codes aside, what it prints into a pipe: the same diff lines in
    the same order - also for lines that contain a form feed, NEL or U+2028"""
    import os
    import pty
    import select
    import subprocess
    import sys
    eol = case["eol"]
    body = ["select 1;\x0c-- schema 1.2.3", "+kept line\u2028-also kept\x85@@ still kept", "-- trailing comment", "end"]
    cfg = ('[bumpver]\ncurrent_version = "1.2.3"\nversion_pattern = "MAJOR.MINOR.PATCH"\n\n[bumpver.file_patterns]\n'
           '"bumpver.toml" = [\'current_version = "{version}"\']\n"notes.sql" = ["-- schema {version}"]\n')
    d = harness.new_project({"bumpver.toml": cfg.encode(), "notes.sql": eol.join(body).encode("utf-8")})
    try:
        env = dict(os.environ, PYTHONPATH=core.src_dir(), PYTHONIOENCODING="utf-8", TERM="xterm", COLUMNS="200")
        argv = [sys.executable, "-m", "bumpver", "update", "--dry", "--no-fetch", "--patch"]
        piped = subprocess.run(argv, cwd=d, env=env, capture_output=True, timeout=120)
        try:
            master, slave = pty.openpty()
        except OSError:
            ctx.count("discarded:no-pseudo-terminal-available")      # (not a `required` counter: sandboxes may lack /dev/ptmx)
            return
        proc = subprocess.Popen(argv, cwd=d, env=env, stdout=slave, stderr=subprocess.DEVNULL, stdin=subprocess.DEVNULL)
        os.close(slave)
        chunks = []
        while True:
            r, _w, _x = select.select([master], [], [], 60)
            if not r:
                break
            try:
                data = os.read(master, 65536)
            except OSError:
                break
            if not data:
                break
            chunks.append(data)
        proc.wait(timeout=60)
        os.close(master)
        ctx.count("dry_runs_on_a_terminal")
        ctx.evaluated(("tty", eol), sample={"argv": argv[2:], "piped_exit": piped.returncode, "tty_exit": proc.returncode})
        if piped.returncode != 0 or proc.returncode != 0:
            ctx.violation("other:dry_run_fails_on_control_sequences", f"piped exit {piped.returncode}, terminal exit {proc.returncode}",
                          case=case)
            return
        tty_text = re.sub(r"\x1b\[[0-9;]*m", "", b"".join(chunks).decode("utf-8", "replace")).replace("\r\n", "\n")
        pipe_text = piped.stdout.decode("utf-8", "replace")
        if eol == "\r\n":
            # (the terminal turns every LF into CR LF: the CR that belongs to the file's lines cannot be told apart)
            tty_text, pipe_text = tty_text.replace("\r", ""), pipe_text.replace("\r", "")
        if tty_text.rstrip("\n") != pipe_text.rstrip("\n"):
            ctx.violation("other:terminal_diff_differs_from_piped_diff", f"on a terminal --dry prints {tty_text[:300]!r}, into a pipe "
                          f"{pipe_text[:300]!r}", case=case)
    finally:
        harness.rm_dir(d)


def run_ansi(ctx, case):
    vp, cur, flag, new = case["vp"], case["cur"], case["flag"], case["new"]
    eol = case["eol"]
    line, pat = ANSI_LINES[case["line"]]
    text = eol.join(["#!/bin/sh", "# \x1b[36mbanner\x1b[0m", line.format(v=cur), "exit 0", ""])
    cfg = (f'[bumpver]\ncurrent_version = "{cur}"\nversion_pattern = "{vp}"\n\n[bumpver.file_patterns]\n'
           '"bumpver.toml" = [\'current_version = "{version}"\']\n' + f'"banner.sh" = [{projects.toml_str(pat)}]\n')
    files = {"bumpver.toml": cfg.encode(), "banner.sh": text.encode()}
    d = harness.new_project(files)
    try:
        args = ["update", "--no-fetch", flag]
        before = harness.snapshot(d, meta=True)
        dres = harness.invoke(args + ["--dry"], cwd=d)
        ctx.count("files_with_terminal_control_sequences")
        ctx.evaluated(("ansi", vp, case["line"], eol), sample={"argv": args + ["--dry"], "line": line})
        if harness.snapshot(d, meta=True) != before:
            ctx.violation("other:dry_run_changed_files", f"{args} --dry (banner.sh)", case=case)
        if dres.exit_code != 0:
            ctx.violation("other:dry_run_fails_on_control_sequences", f"{args} --dry: exit {dres.exit_code} {dres.errors()[-2:]} "
                          f"{dres.crash or ''}", case=case)
            return
        try:
            diff = parse_diff(dres.stdout.rstrip("\n"))
            on_disk = {fn: b.decode("utf-8") for fn, b in files.items()}
            predicted = apply_diff(on_disk, {"bumpver.toml": "\n", "banner.sh": eol}, diff)
        except DiffError as ex:
            ctx.violation("other:printed_diff_not_applicable", f"{args} --dry on a file with terminal control sequences: {ex}; "
                          f"stdout={dres.stdout[:300]!r}", case=case)
            return
        res = harness.invoke(args, cwd=d)
        after = harness.snapshot(d)
        if res.exit_code != 0 or any(after.get(fn) != predicted[fn].encode("utf-8") for fn in files):
            ctx.violation("other:real_run_differs_from_printed_diff", f"{args}: exit {res.exit_code}; banner.sh predicted "
                          f"{predicted['banner.sh']!r}, real run wrote {after.get('banner.sh')!r}", case=case)
    finally:
        harness.rm_dir(d)


def run_unaffected(ctx, case):
    from bvmon import ref
    tdy = updates.today()
    vp, cur = case["vp"], case["cur"]
    ast = ref.parse_pattern(vp)
    st = ref.state_from_raw(ref.parse(ast, cur), tdy)
    past = ref.parse_pattern(case["partial"])
    if any(st.get(ref.FIELD[n]) is None for n in ref.parts_in(past)):
        raise harness.Skip("partial-not-determined")
    occ = ref.render(past, st)
    line = ("~" * len(occ)) if case["destroyed"] else occ
    cfg = (f'[bumpver]\ncurrent_version = "{cur}"\nversion_pattern = "{vp}"\ncommit = {str(case["commit"]).lower()}\n\n'
           f'[bumpver.file_patterns]\n"bumpver.toml" = [\'current_version = "{{version}}"\']\n'
           f'"a.txt" = ["version {{version}}"]\n"compat.txt" = ["{case["partial"]}"]\n')
    files = {"bumpver.toml": cfg, "a.txt": f"head\nversion {cur}\ntail\n", "compat.txt": f"notes\n{line}\nend\n"}
    d = harness.new_project(files)
    fake = None
    env = None
    try:
        if case["commit"]:
            fake = harness.FakeVCS(d, "git")
            fake.set_out("status", "")
            env = fake.env
        date = "%04d-%02d-%02d" % (st.get("year_y") or tdy.year, st.get("month") or 6, 15)
        args = ["update", "--no-fetch", case["flag"], "--date", date]
        before = harness.snapshot(d)
        dres = harness.invoke(args + ["--dry"], cwd=d, env=env)
        if harness.snapshot(d) != before:
            ctx.violation("other:dry_run_changed_files", f"{args} --dry", case=case)
        if fake:
            fake.reset()
        res = harness.invoke(args, cwd=d, env=env)
        after = harness.snapshot(d)
        ctx.count("unaffected_file_cases")
        ctx.evaluated(("unaffected", vp, case["partial"], case["destroyed"], case["commit"], dres.exit_code == 0),
                      sample={"argv": args, "compat.txt": files["compat.txt"], "dry_exit": dres.exit_code, "real_exit": res.exit_code})
        if dres.exit_code == 0 and res.exit_code != 0:
            ctx.violation("other:real_run_fails_after_clean_dry_run", f"{args}: compat.txt = {files['compat.txt']!r} with "
                          f"pattern {case['partial']!r}: --dry exits 0, the real run exits {res.exit_code}: {res.errors()[-2:]}",
                          case=case)
        if not case["destroyed"] and (dres.exit_code != 0 or res.exit_code != 0):
            ctx.violation("other:update_fails_on_intact_project", f"{args}: dry {dres.exit_code}, real {res.exit_code}: "
                          f"{(dres.errors() + res.errors())[-2:]}", case=case)
        if dres.exit_code == 0 and res.exit_code == 0:
            try:
                predicted = apply_diff({k: v for k, v in files.items()}, {k: "\n" for k in files},
                                       parse_diff(dres.stdout.rstrip("\n") if dres.stdout.strip("\n") else ""))
                bad = [fn for fn in files if after.get(fn) != predicted[fn].encode()]
                if bad:
                    ctx.violation("other:real_run_differs_from_printed_diff", f"{args}: {bad}", case=case)
            except DiffError as ex:
                ctx.violation("other:printed_diff_not_applicable", f"{args}: {ex}", case=case)
    finally:
        harness.rm_dir(d)
        if fake:
            fake.destroy()


def run_case(ctx, case):
    if case.get("kind") == "ansi":
        return run_ansi(ctx, case)
    if case.get("kind") == "tty":
        return run_tty(ctx, case)
    if case.get("kind") == "unaffected":
        return run_unaffected(ctx, case)
    R = random.Random(case["pseed"])
    mods = updates.bvmods()
    tdy = updates.today()
    commit_cfg = {"commit": True, "tag": R.random() < 0.5, "push": False} if case["commit"] else None
    if case["legacy"]:
        proj, why = projects.gen_legacy_project(R, mods, eol_choices=("\n", "\r\n", "\r"))
        if proj is not None and commit_cfg:
            proj.meta["cfg_extra"] = commit_cfg
            proj = projects.reorder_entries(proj, list(range(len(proj.entries))), R)
        args = ["update", "--no-fetch", "--date", R.choice(["2100-01-01", "1999-01-01"])]
        if "semver" in proj.vp or "MAJOR" in proj.vp or R.random() < 0.3:
            if "semver" in proj.vp or "MAJOR" in proj.vp:
                args.append(R.choice(["--patch", "--minor", "--major"]))
    else:
        proj, why = projects.gen_project(R, mods, tdy, eol_choices=("\n", "\n", "\r\n", "\r"),
                                         filler="unicode" if case["unicode"] else "plain", cfg_fmt=None,
                                         commit_cfg=commit_cfg)
        if proj is None:
            raise harness.Skip(why)
        if case["random_flags"]:
            from bvmon import gen, ref
            names = list(ref.parts_in(ref.parse_pattern(proj.vp)))
            fl = gen.gen_flags(R, names)
            import datetime as dt
            date = dt.date(proj.cur_state.get("year_y") or tdy.year, 6, 15) + dt.timedelta(R.choice(gen.DATE_OFFSETS))
        else:
            fl, date, exp, why = updates.plan_update(R, proj.vp, proj.cur_text, proj.cur_state, tdy)
            if exp is None:
                raise harness.Skip("no-successful-update-planned")
        args = updates.update_args(fl, date)
    if case["pseed"] % 5 == 0:
        # message templates take part in "the same arguments": ordinary ones, and ones str.format cannot render
        # (unknown placeholder, stray brace) - whatever --dry says, the real run must agree
        tmpl = R.choice(["release {new_version}", "OLD -> NEW", "bump {old_version} to {new_version_pep440}",
                         "release {version}", "notes: {", "} stray", "{0} positional", "{new_version!z}", ""])
        args += [R.choice(["--commit-message", "--tag-message"]), tmpl]
        ctx.count("message_template_cases")
    files = proj.encoded()
    if case.get("fault"):
        # one configured pattern is made non-matching: whatever --dry says, the real run must agree with it
        cands = [pl for pl in proj.plants if pl.file != proj.cfg_name]
        if cands:
            victim = R.choice(cands)
            t = proj.files[victim.file]
            for pl in proj.plants:
                if pl.file == victim.file and pl.raw == victim.raw:
                    t = t[:pl.start] + "~" * (pl.end - pl.start) + t[pl.end:]
            files[victim.file] = t.encode("utf-8")
            ctx.count("fault_cases")
    d = harness.new_project(files)
    fake = None
    env = None
    try:
        if case["commit"]:
            fake = harness.FakeVCS(d, "git")
            fake.set_out("status", "")
            env = fake.env
            ctx.count("commit_on_runs")
            if case.get("dirty"):
                # an unrelated tracked file has a local modification (no --allow-dirty): "the same arguments"
                fake.set_out("status", " M unrelated-notes.txt\n")
                ctx.count("dirty_tree_cases")
            if case.get("fetch") and not case["legacy"] and not case["random_flags"] and not case.get("fault"):
                # a remote whose fetch brings a newer version tag: "the same arguments" include the implicit fetch,
                # so the dry run has to start from the same (fetched) version as the real run
                fake.set_out("remote", "git@example.org:x/y.git\n")
                fake.set_out("tag-list", proj.cur_text + "\n")
                fake.set_out("tag-list.after_fetch", proj.cur_text + "\n" + exp + "\n")
                fake.set_out("tag-merged", proj.cur_text + "\n")
                fake.set_out("tag-merged.after_fetch", proj.cur_text + "\n" + exp + "\n")
                args = [a for a in args if a != "--no-fetch"] + ["--fetch"]
                ctx.count("fetch_brings_newer_tag_cases")
        before = harness.snapshot(d, meta=True)
        dres = harness.invoke(args + ["--dry"], cwd=d, env=env)
        mid = harness.snapshot(d, meta=True)
        desc = {"project": proj.describe(), "argv": args}
        engine = "v1" if proj.legacy else "v2"
        if mid != before or harness.writes_inside(dres, d):
            ctx.violation("other:dry_run_changed_files", f"{args} --dry: changed "
                          f"{harness.diff_snapshots(before, mid)} write-set={sorted(harness.writes_inside(dres, d))}",
                          observed=desc)
        if fake:
            # `fetch` only syncs remote-tracking data and is part of "the same arguments" for both runs (it decides
            # the start version), so it is not counted as mutating here: add/commit/tag/push and hooks are
            muts = [m for m in map(harness.mutating_kind, fake.events()) if m and m != "fetch"]
            if muts:
                ctx.violation("other:dry_run_issued_vcs_or_hook", f"{args} --dry: {muts}", observed=desc)
            fake.reset()
        if dres.exit_code != 0:
            ctx.count("dry_failed_nothing_changed")
            ctx.evaluated()
            return
        # R5: parse + apply the printed diff
        eols = {fn: EOL_OF.get(proj.eol.get(fn, "LF"), "\n") for fn in proj.files}
        for fn, t in proj.files.items():
            kinds = {m.group(0) for m in re.finditer(r"\r\n|\r|\n", t)}
            if len(kinds) > 1:
                raise harness.Skip("inconsistent-eol")
            if kinds:
                eols[fn] = kinds.pop()
        try:
            diff = parse_diff(dres.stdout.rstrip("\n") if dres.stdout.strip("\n") else "")
            on_disk = {fn: files[fn].decode("utf-8") for fn in proj.files}
            predicted = apply_diff(on_disk, eols, diff)
        except DiffError as ex:
            ctx.violation("other:printed_diff_not_applicable", f"{args} --dry: {ex}; stdout={dres.stdout[:300]!r}", observed=desc)
            return
        res = harness.invoke(args, cwd=d, env=env)
        if res.exit_code != 0:
            cls = "other:real_run_fails_after_clean_dry_run"
            if case.get("dirty") and any("working directory is not clean" in e for e in res.errors()) and \
                    harness.snapshot(d, meta=True) == before:
                # known mechanism, verified: the only difference to the clean-tree cases is the status output, the
                # real run refused because of it (changing nothing) and --dry had not looked at it
                cls = "dirty_tree_checked_only_by_real_run"
            ctx.violation(cls, f"{args}: dry exit 0, real exit {res.exit_code}: "
                          f"{res.errors()[-3:]} {res.crash or ''}", observed=desc)
            return
        after = harness.snapshot(d)
        bad = [fn for fn in proj.files if after.get(fn) != predicted[fn].encode("utf-8")]
        n_changed = sum(1 for fn in proj.files if predicted[fn] != on_disk[fn])
        ctx.count("dry_ok_and_applied")
        ctx.count("engine:" + engine)
        if n_changed >= 2:
            ctx.count("multi_file_diffs")
        hunks = max((len(h) for h in diff.values()), default=0)
        ctx.evaluated((n_changed, hunks, tuple(sorted(set(proj.eol.values()))), engine, bool(case["commit"])),
                      sample={"argv": args + ["--dry"], "diff": dres.stdout[:400]})
        if bad:
            fn = bad[0]
            ctx.violation("other:real_run_differs_from_printed_diff",
                          f"{args}: {fn}: diff predicts {predicted[fn][:200]!r}, real run wrote {after.get(fn, b'')[:200]!r}",
                          observed=desc)
        extra = [fn for fn in after if fn not in proj.files and not fn.startswith("hook-")]
        if extra:
            ctx.violation("other:unexpected_file", f"{extra}", observed=desc)
    finally:
        harness.rm_dir(d)
        if fake:
            fake.destroy()

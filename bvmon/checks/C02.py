"""C02 - rendered versions are accepted by their own pattern and read back unchanged.

Through one adapter (format_version / parse_version_info of the real code): render a reachable state, require
(1) equality with the independent renderer R1, (2) a full match by the compiled recogniser, (3) part-wise
equality of what is read back, (4) byte-equal re-rendering. Plus CLI feedback chains (`bumpver test` output
fed back as the next input).
"""
import datetime as dt
import random

from bvmon import gen, harness, ref

CAL_PATTERNS_4 = ["YYYY.MM", "YYYY.0M", "YYYY.MM.DD", "YYYY.0M.0D", "YYYY.JJJ", "YYYY.00J", "YYYY.Q", "YYYY.WW",
                  "YYYY.0W", "YYYY.UU", "YYYY.0U", "GGGG.VV", "GGGG.0V", "YYYY0M0D", "YYYY00J", "GGGG0V",
                  "vYYYY.Q.MM", "YYYY-0M-0D", "YYYY0M.0D"]
CAL_PATTERNS_2 = ["YY.MM", "0Y.0M", "YY.0M.0D", "0Y0M0D", "YY.JJJ", "0Y.00J", "GG.VV", "0G.0V", "0G0V", "YY.WW",
                  "0Y.0U", "YY.Q", "0Y.MM.DD"]

SPEC = dict(
    level="exploration",
    rule=("calendar parts: quick = every date within 4 days of every New Year 1000..9999, every Feb 28..Mar 1 and "
          "two random days per year; thorough = EVERY date 1000-01-01..9999-12-31 (exhaustive, sharded by year "
          "range) x 19 patterns pairing each calendar part with its year part (13 two-digit-year patterns on "
          "2001..2099, all days); other parts: grammar-G patterns (nested optional groups, literal text) x boundary "
          "and random states; CLI chains: `bumpver test` output fed back as the next input; states reached by bumping: the output of one real `bumpver test` (and of incr() itself) from a reachable state under random flags is read back and re-rendered; non-trivial+distinct = "
          "distinct (calendar pattern, rendered text) pairs counted as text transitions along each shard's "
          "contiguous date range (minus one per pattern per shard, conservative) + distinct (pattern shape, "
          "#groups omitted, #groups present) of the grammar cases"),
    assumptions=["R1 (bvmon/ref.py) is the independent renderer/recogniser written from the README part table",
                 "states are reachable: what re-reading the rendered text yields (hidden TAG/NUM never leak)"],
    required=["yearless_week_zero_roundtrips", "calendar_renders", "grammar_renders", "bumped_state_renders", "chain_steps", "groups_omitted_cases",
              "groups_present_cases"],
    anchors=[("v2patterns", "_compile_pattern_re"), ("v2patterns", "_replace_pattern_parts"),
             ("v2version", "parse_version_info"), ("v2version", "_parse_segtree"), ("v2version", "_format_segment"),
             ("v2version", "_format_segment_tree")],
    exhaustive={"quick": False, "thorough": True},
    exhaustive_note="thorough enumerates every calendar date 1000-01-01..9999-12-31 for the 19 four-digit-year patterns "
                    "and every date 2001..2099 for the 13 two-digit-year patterns; grammar cases and chains are sampled",
)

PINNED = [
    {"kind": "date1", "date": "2018-12-31", "pattern": "YYYY.WW"},
    {"kind": "date1", "date": "2017-12-31", "pattern": "YYYY.0U"},
    {"kind": "state", "p": "MAJOR[-TAG]", "state": {"major": 0, "tag": "final"}},
]


# week number 0 in a pattern that has no year part (the first days of January, until the first Monday / Sunday)
YEARLESS_WEEK0 = [("2021-01-02", "vMAJOR.0W.INC0"), ("2021-01-01", "WW.BUILD"), ("2022-01-01", "vMAJOR.UU[.PATCH]"),
                  ("2021-01-02", "MAJOR.0U.INC0"), ("2027-01-03", "vMAJOR.WW.MINOR")]


def cases(ctx):
    for k, (d, p) in enumerate(YEARLESS_WEEK0):
        if ctx.mine(k):
            yield {"kind": "date1", "date": d, "pattern": p, "week0": True}
    # contiguous year range per shard
    y0, y1 = 1000, 9999
    span = (y1 - y0 + 1 + ctx.nshards - 1) // ctx.nshards
    a = y0 + ctx.shard * span
    b = min(y1, a + span - 1)
    if a <= b:
        yield {"kind": "dates", "y0": a, "y1": b, "mode": "windows" if ctx.quick else "all", "two_digit": False}
    if ctx.shard < 99:
        ys = list(range(2001 + ctx.shard, 2100, ctx.nshards))
        for y in ys:
            yield {"kind": "dates", "y0": y, "y1": y, "mode": "all", "two_digit": True}
    for _ in range(ctx.size(20000, 500000)):
        yield {"kind": "grammar", "seed": ctx.rng.getrandbits(48)}
    for _ in range(ctx.size(20000, 400000)):
        yield {"kind": "bumped", "seed": ctx.rng.getrandbits(48)}
    for _ in range(ctx.size(200, 2000)):
        yield {"kind": "chain", "seed": ctx.rng.getrandbits(48), "steps": 50 if ctx.quick else 200}


def mk_vinfo(bvv, st):
    kw = {f: st.get(f) for f in ref.CAL_FIELDS}
    kw.update(major=st.get("major", 0), minor=st.get("minor", 0), patch=st.get("patch", 0), bid=st.get("bid", "1000"),
              tag=st.get("tag", "final"), pytag=ref.TAGS[st.get("tag", "final")], githash="", hexhash="",
              num=st.get("num", 0), inc0=st.get("inc0", 0), inc1=st.get("inc1", 1))
    return bvv.V2VersionInfo(**kw)


def year_in_range(names, date):
    return all(not ((any(n in names for n in two) and not 2001 <= y <= 2099) or (four in names and not 1000 <= y <= 9999))
               for two, four, y in ((("YY", "0Y"), "YYYY", date.year), (("GG", "0G"), "GGGG", date.isocalendar()[0])))


def pytag_not_separately_optional(seq, depth=0):
    """PYTAG (whose recogniser has no alternative for a final release) at top level, or in a group together with
    other parts / groups that can force the group to be rendered."""
    here = [n for n in seq if n[0] == "part"]
    if any(n[1] == "PYTAG" for n in here):
        if depth == 0 or any(n[1] not in ("PYTAG", "NUM") for n in here) or any(n[0] == "opt" for n in seq):
            return True
    return any(pytag_not_separately_optional(n[1], depth + 1) for n in seq if n[0] == "opt")


def classify_bumped(names, old, fl, st, what):
    if old.get("tag") == "final" and fl.get("tag") == "final" and fl.get("tag_num") and "NUM" in names:
        return "final_tag_with_tag_number:" + what
    return classify(names, st, what)


def classify(names, st, what):
    wk = ((st.get("week_w") == 53 and any(n in names for n in ("WW", "0W")))
          or (st.get("week_u") == 53 and any(n in names for n in ("UU", "0U"))))
    if wk and what in ("not-recognised",):
        return "week_53_rendered_not_recognised"
    return "other:" + what


def roundtrip(ctx, mods, p, ast, names, st, case):
    """The four oracle clauses for one (pattern, state). Returns rendered text (or None)."""
    bvv, v2v = mods
    vinfo = mk_vinfo(bvv, st)
    try:
        t = v2v.format_version(vinfo, p)
    except Exception as ex:
        ctx.violation("other:render_raises", f"format_version({p!r}) raised {type(ex).__name__}: {ex}", case=case)
        return None
    exp = ref.render(ast, st)
    if t != exp:
        ctx.violation(classify(names, st, "render_differs_from_reference"),
                      f"pattern {p!r}: rendered {t!r}, reference renderer {exp!r}", case=case)
        return t
    try:
        back = harness.call(v2v.parse_version_info, t, p)
    except bvv.PatternError as ex:
        ctx.violation(classify(names, st, "not-recognised"),
                      f"pattern {p!r}: own rendering {t!r} is rejected by the compiled recogniser: {str(ex)[:120]}", case=case)
        return t
    except Exception as ex:
        ctx.violation("other:readback_raises", f"parse_version_info({t!r}, {p!r}) raised {type(ex).__name__}: {ex}", case=case)
        return t
    for n in names:
        f = ref.FIELD[n]
        got = getattr(back, f)
        want = st[f] if f != "pytag" else ref.TAGS[st["tag"]]
        if got != want:
            ctx.violation(classify(names, st, "readback_part_differs"),
                          f"pattern {p!r} text {t!r}: part {n} read back as {got!r}, rendered from {want!r}", case=case)
            return t
    try:
        t2 = v2v.format_version(back, p)
    except Exception as ex:
        ctx.violation("other:rerender_raises", f"{p!r} {t!r}: {ex!r}", case=case)
        return t
    if t2 != t:
        ctx.violation(classify(names, st, "rerender_differs"), f"pattern {p!r}: {t!r} re-rendered as {t2!r}", case=case)
    return t


_AST = {}


def get_ast(p):
    if p not in _AST:
        a = ref.parse_pattern(p)
        _AST[p] = (a, list(ref.parts_in(a)))
    return _AST[p]


def run_dates(ctx, case, mods):
    pats = CAL_PATTERNS_2 if case["two_digit"] else CAL_PATTERNS_4
    prepared = [(p,) + get_ast(p) for p in pats]
    last = {p: None for p in pats}
    trans = {p: 0 for p in pats}
    base = ref.default_state()
    R = random.Random(f"{ctx.seed}:{case['y0']}")

    def dates():
        for y in range(case["y0"], case["y1"] + 1):
            if case["mode"] == "all":
                d = dt.date(y, 1, 1)
                while d.year == y:
                    yield d
                    if d == dt.date.max:
                        return
                    d += dt.timedelta(1)
            else:
                ds = set()
                for k in range(0, 4):
                    ds.add(dt.date(y, 1, 1) + dt.timedelta(k))
                    ds.add(dt.date(y, 12, 31) - dt.timedelta(k))
                ds.add(dt.date(y, 2, 28))
                ds.add(dt.date(y, 3, 1))
                ds.add(dt.date(y, 3, 1) - dt.timedelta(1))
                for _m in range(2):
                    ds.add(dt.date(y, R.randint(1, 12), R.randint(1, 28)))
                yield from sorted(ds)

    n = 0
    for d in dates():
        st = dict(base)
        st.update(ref.cal_from_date(d))
        for p, ast, names in prepared:
            c = {"kind": "date1", "date": d.isoformat(), "pattern": p}
            # state as re-read from the text: only the fields the pattern carries (+ derived ones)
            t = roundtrip(ctx, mods, p, ast, names, st, c)
            n += 1
            if t != last[p]:
                trans[p] += 1
                last[p] = t
    ctx.evaluations += n
    ctx.counters["calendar_renders"] += n
    ctx.nt_extra += sum(max(0, v - 1) for v in trans.values())
    if len(ctx.samples) < 3:
        ctx.samples.append({"calendar_range": [case["y0"], case["y1"]], "mode": case["mode"], "patterns": pats[:6],
                            "last_rendered": {p: last[p] for p in pats[:6]}})


def run_case(ctx, case):
    harness.bv()
    import bumpver.v2version as v2v
    import bumpver.version as bvv
    mods = (bvv, v2v)
    tdy = bvv.TODAY
    kind = case["kind"]
    if kind == "dates":
        return run_dates(ctx, case, mods)
    if kind == "date1":
        p = case["pattern"]
        ast, names = get_ast(p)
        st = ref.default_state()
        st.update(ref.cal_from_date(dt.date.fromisoformat(case["date"])))
        roundtrip(ctx, mods, p, ast, names, st, case)
        if case.get("week0"):
            ctx.count("yearless_week_zero_roundtrips")
        ctx.evaluated(("pinned", p, case["date"]))
        return
    if kind == "state":
        p = case["p"]
        ast, names = get_ast(p)
        st = ref.default_state()
        st.update(ref.cal_from_date(tdy))
        st.update(case["state"])
        roundtrip(ctx, mods, p, ast, names, st, case)
        ctx.evaluated(("pinned", p))
        return
    R = random.Random(case["seed"])
    if kind == "grammar":
        p = gen.gen_pattern(R)
        ast = ref.parse_pattern(p)
        names = list(ref.parts_in(ast))
        _d, st0 = gen.gen_state(R, names, wide=True)
        rs = gen.reachable(ast, st0, tdy)
        if rs is None:
            raise harness.Skip("unreachable-state")
        text, st = rs
        if ref.n_full_parses(ast, text) != 1:
            raise harness.Skip("ambiguous-text")
        # calendar fields the text does not determine are None after re-reading; rendering needs none of them
        t = roundtrip(ctx, mods, p, ast, names, st, {"kind": "state", "p": p, "state": {k: v for k, v in st.items()}})
        _t, om, pr = ref.render_info(ast, st)
        ctx.counters["grammar_renders"] += 1
        if om:
            ctx.counters["groups_omitted_cases"] += 1
        if pr:
            ctx.counters["groups_present_cases"] += 1
        ctx.evaluated((ref.shape(ast), om, pr), sample={"pattern": p, "rendered": t})
        return
    if kind == "bumped":
        # states REACHED BY BUMPING: whatever the real incr() returns from a reachable state must round-trip
        bvv, v2v = mods
        p = gen.gen_pattern(R)
        ast = ref.parse_pattern(p)
        names = list(ref.parts_in(ast))
        d, st0 = gen.gen_state(R, names)
        rs = gen.reachable(ast, st0, tdy)
        if rs is None or ref.n_full_parses(ast, rs[0]) != 1 or not ref.week_pairing_ok(names):
            raise harness.Skip("unreachable-state")
        fl = gen.gen_flags(R, names, applicable_only=R.random() < 0.8)
        if "NUM" in names and R.random() < 0.3:
            fl["tag"], fl["tag_num"] = R.choice(["final", "final", rs[1]["tag"]]), True
        date = d + dt.timedelta(R.choice(gen.DATE_OFFSETS))
        c = {"kind": "bumped", "seed": case["seed"]}
        # library level: what incr() itself returns is "the text bumpver renders" for the bumped state. The CLI has a
        # safety net behind it (_is_valid_version), so an unreadable rendering is refused there - but it is still a
        # rendering its own recogniser rejects. Not counted: a final release under a pattern whose tag part is not
        # separately optional (PYTAG has no text for a final release, so that state has no rendering at all).
        try:
            lib = harness.call(v2v.incr, rs[0], p, maybe_date=date, **fl)
        except OverflowError:
            lib = None
        if lib is not None and year_in_range(names, date):
            ctx.counters["library_incr_results"] += 1
            try:
                harness.call(v2v.parse_version_info, lib, p)
            except bvv.PatternError as ex:
                new_tag = fl.get("tag") or rs[1]["tag"]
                if new_tag == "final" and pytag_not_separately_optional(ast):
                    ctx.count("final_release_under_mandatory_tag_part")
                else:
                    try:
                        mst = ref.bump_state(ast, rs[1], date, **fl) or {}
                    except OverflowError:
                        mst = {}
                    if mst and ref.render(ast, mst) != lib:
                        mst = {}
                    ctx.violation(classify_bumped(names, rs[1], fl, mst, "not-recognised"),
                                  f"incr({rs[0]!r}, {p!r}, {fl}, date={date}) returned {lib!r}, which its own recogniser "
                                  f"rejects: {str(ex)[:100]}", case=c)
        args = ["test", rs[0], p] + gen.flags_to_args(fl, date)
        res = harness.invoke(args)
        if res.exit_code != 0:
            if res.crash and not res.crash.startswith("OverflowError"):
                ctx.violation("other:crash", f"{args}: {res.crash}", case=c)
            ctx.count("bumped_refused")
            raise harness.Skip("refused")
        new = res.stdout_value("New Version: ")
        y_ok = year_in_range(names, date)
        if not y_ok:
            raise harness.Skip("year-outside-documented-range")
        what = f"bumpver {' '.join(args)}"
        ctx.counters["bumped_state_renders"] += 1
        if fl.get("tag") == rs[1]["tag"] and fl.get("tag_num"):
            ctx.count("bumped_same_tag_with_tag_num")
        key = (ref.shape(ast), "bumped", fl.get("tag") or "-", bool(fl.get("tag_num")))
        try:
            back = harness.call(v2v.parse_version_info, new, p)
        except bvv.PatternError as ex:
            st = ref.state_from_raw(ref.parse(ast, new), tdy) if ref.parse(ast, new) else {}
            ctx.violation(classify_bumped(names, rs[1], fl, st, "not-recognised"),
                          f"{what} announced {new!r}, which its own recogniser rejects: {str(ex)[:120]}", case=c)
            return
        t2 = v2v.format_version(back, p)
        if t2 != new:
            st = ref.state_from_raw(ref.parse(ast, new), tdy) if ref.parse(ast, new) else {}
            ctx.violation(classify_bumped(names, rs[1], fl, st, "rerender_differs"),
                          f"{what} announced {new!r}; read back and rendered again it is {t2!r}", case=c)
            return
        ctx.evaluated(key)
        return
    if kind == "chain":
        return run_chain(ctx, case, R, tdy)


def run_chain(ctx, case, R, tdy):
    """`bumpver test` output fed back as its input: every announced version must be a legal current version."""
    p = gen.gen_pattern(R, decorate=False)
    ast = ref.parse_pattern(p)
    names = list(ref.parts_in(ast))
    d, st0 = gen.gen_state(R, names)
    rs = gen.reachable(ast, st0, tdy)
    if rs is None or ref.n_full_parses(ast, rs[0]) != 1:
        raise harness.Skip("unreachable-state")
    cur = rs[0]
    date = d
    steps = 0
    refusals = 0
    for _ in range(case["steps"]):
        fl = gen.gen_flags(R, names, applicable_only=True)
        fl["pin_date"] = False
        if refusals and "PATCH" in names:
            fl["patch"] = True
        date = date + dt.timedelta(R.choice([0, 0, 1, 3, 30, 200]))
        if date.year > 2098:
            break
        args = ["test", cur, p] + gen.flags_to_args(fl, date)
        res = harness.invoke(args)
        ctx.counters["chain_steps"] += 1
        if res.exit_code != 0:
            errs = " ".join(res.errors())
            if res.crash and res.crash.startswith("OverflowError"):
                ctx.count("chain_reached_build_maximum")
                break
            if steps > 0 and (f"Invalid version '{cur}' and/or" in errs or f"version string '{cur}'" in errs or res.crash):
                st = ref.state_from_raw(ref.parse(ast, cur), tdy) if ref.parse(ast, cur) else {}
                ctx.violation(classify(names, st, "announced_version_not_accepted_as_next_input"),
                              f"{args}: previous output {cur!r} is rejected as input: {errs[:200]} {res.crash or ''}",
                              case={"kind": "chain", "seed": case["seed"], "steps": case["steps"]})
                break
            refusals += 1
            if refusals > 6:
                break
            continue
        refusals = 0
        new = res.stdout_value("New Version: ")
        steps += 1
        cur = new
    ctx.evaluated(("chain", ref.shape(ast), min(steps, 5)), sample={"pattern": p, "chain_steps": steps, "last": cur})

"""C16 - version comparison is a total preorder that agrees with PEP 440.

Monitors: K16 (icontract postcondition on version.parse_version: type and canonical string agree with the
packaging wheel) + order-law checker over all pairs and sampled triples of a generated string set.
"""
import itertools
import random

from packaging.version import InvalidVersion, Version

from bvmon import contracts, harness

SPEC = dict(
    level="exploration",
    rule=("strings = grammar-generated PEP 440 versions (epochs, pre/post/dev/local, alternate spellings, "
          "separators, leading zeros, case, v prefix, surrounding whitespace) + legacy strings (bumpver style, "
          "arbitrary text, near-PEP 440 mutations); ALL ordered pairs of the set are compared (sharded by row) and "
          "random triples are checked for transitivity; non-trivial+distinct = distinct canonical PEP 440 forms + "
          "distinct legacy strings in this shard's rows"),
    assumptions=["packaging (offline wheel, v26) is the PEP 440 reference for validity, order and canonical form"],
    required=["pairs", "triples", "pep_pairs_vs_reference", "legacy_vs_pep_pairs", "k16_evaluations"],
    anchors=[("setuptools_v65_version", "parse"), ("setuptools_v65_version", "_cmpkey"),
             ("setuptools_v65_version", "_legacy_cmpkey"), ("version", "parse_version")],
    exhaustive={"quick": False, "thorough": False},
)

PRE = ["a", "b", "rc", "alpha", "beta", "c", "pre", "preview", "A", "RC", "Beta"]
POST = ["post", "rev", "r", "POST"]


def gen_pep(R):
    s = ""
    if R.random() < 0.12:
        s += f"{R.choice([0, 1, 2, 10])}!"
    n = R.choice([1, 1, 2, 2, 3, 3, 4, 6])
    rel = []
    for _ in range(n):
        v = R.choice([0, 0, 1, 2, 9, 10, 11, 99, 100, 2020, 202109, 1001])
        rel.append(("0" * R.choice([0, 0, 0, 1, 2])) + str(v))
    s += ".".join(rel)
    if R.random() < 0.45:
        sep = R.choice(["", "", ".", "-", "_"])
        sep2 = R.choice(["", "", ".", "-", "_"])
        num = R.choice(["", "0", "1", "2", "10", "01"])
        s += sep + R.choice(PRE) + (sep2 + num if num else "")
    if R.random() < 0.3:
        r = R.random()
        if r < 0.2:
            s += "-" + str(R.choice([0, 1, 5]))  # implicit post release
        else:
            sep = R.choice(["", ".", "-", "_"])
            num = R.choice(["", "0", "1", "3"])
            s += sep + R.choice(POST) + (R.choice(["", ".", "-", "_"]) + num if num else "")
    if R.random() < 0.25:
        sep = R.choice(["", ".", "-", "_"])
        num = R.choice(["", "0", "1", "7"])
        s += sep + R.choice(["dev", "DEV"]) + (R.choice(["", ".", "-", "_"]) + num if num else "")
    if R.random() < 0.12:
        s += "+" + R.choice(["abc", "1", "abc.1", "ubuntu-1", "x_y", "001", "A.b"])
    if R.random() < 0.15:
        s = R.choice(["v", "V"]) + s
    if R.random() < 0.05:
        s = R.choice([" ", "\t", "\n", "\u2003", "\xa0"]) + s + R.choice(["", " ", "\n", "\u2003", "\x1c"])
    return s


LEGACY_FIXED = ["v2017q1.54321", "v201712.0033-beta-x", "junk", "", "latest", "1.2.3-final", "2020.10-final", "1..2",
                "v", "1.0-", "1.0+", "1.0a.b", "1_2", "2021w05", "foo-1.0", "1.0.x", "1.0-final0", "1 .0", "١٢٣",
                "1.0\x00", "v1.0-preview-2", "1.0rc1x", "1e3", "0x10", "1.0..dev", "-1", "+1", "1!", "!1",
                # letters that only LOOK like / case-fold to ASCII letters (long s, dotless i, dotted I, Kelvin sign)
                "1.0.po\u017ft1", "1.0prev\u0131ew1", "1.0+\u212a", "1.0+\u0130", "1.0.de\u1e9e1", "1.0\u017f", "1.0r\u0131"]


def gen_legacy(R):
    r = R.random()
    if r < 0.3:
        return R.choice(LEGACY_FIXED)
    if r < 0.6:
        base = gen_pep(R)
        if R.random() < 0.2:
            # a valid spelling with ONE letter replaced by a non-ASCII look-alike: no longer PEP 440
            look = {"s": "\u017f", "i": "\u0131", "k": "\u212a", "I": "\u0130", "S": "\u017f", "K": "\u212a"}
            idx = [i for i, c in enumerate(base) if c in look]
            if idx:
                i = R.choice(idx)
                return base[:i] + look[base[i]] + base[i + 1:]
        return base + R.choice(["-final", "x", "..", "-", "_", "q", "-final-", "+"])
    if r < 0.8:
        return "".join(R.choice("abcxyz019.-_ vq") for _ in range(R.randint(1, 12)))
    return f"v{R.randint(2000, 2030)}q{R.randint(1, 4)}.{R.randint(1, 99999)}"


def build_set(seed, n):
    R = random.Random(f"{seed}:C16:set")
    out = []
    seen = set()
    while len(out) < n:
        s = gen_pep(R) if R.random() < 0.7 else gen_legacy(R)
        if s not in seen:
            seen.add(s)
            out.append(s)
    return out


def cases(ctx):
    n = 2000 if ctx.quick else 12000
    yield {"n": n, "triples": ctx.size(300000, 5000000)}


def run_case(ctx, case):
    contracts.install_k16()
    harness.bv()
    import bumpver.version as bvv
    strings = case.get("strings") or build_set(ctx.seed, case["n"])
    keys = []
    refs = []
    for s in strings:
        try:
            k = bvv.parse_version(s)
        except Exception as ex:
            ctx.violation("other:parse_raises", f"parse_version({s!r}) raised {ex!r}", case={"strings": [s]})
            k = None
        keys.append(k)
        try:
            refs.append(Version(s))
        except InvalidVersion:
            refs.append(None)
    ctx.count("k16_evaluations", contracts.K16_EVALS[0])
    for w in contracts.K16_WITNESSES:
        ctx.violation("other:k16_" + w[0], f"parse_version({w[1]!r}) -> {w[2]!r}, reference {w[3]!r}",
                      case={"strings": [w[1]]})
    n = len(strings)
    rows = range(n) if "strings" in case else range(ctx.shard, n, ctx.nshards)
    for i in rows:
        a, ra = keys[i], refs[i]
        if a is None:
            continue
        ctx.nt.add("pep:" + str(ra) if ra is not None else "legacy:" + strings[i])
        for j in range(n):
            b, rb = keys[j], refs[j]
            if b is None:
                continue
            try:
                lt, eq, gt, le, ge, ne = a < b, a == b, a > b, a <= b, a >= b, a != b
            except Exception as ex:
                ctx.violation("other:compare_raises", f"{strings[i]!r} vs {strings[j]!r}: {ex!r}",
                              case={"strings": [strings[i], strings[j]]})
                continue
            ctx.evaluations += 1
            bad = None
            if (lt + eq + gt) != 1:
                bad = "not exactly one of < = >"
            elif le != (lt or eq) or ge != (gt or eq) or ne == eq:
                bad = "<=, >=, != inconsistent with <, =, >"
            elif eq != (a._key == b._key):
                bad = "equality differs from key equality"
            elif eq and hash(a) != hash(b):
                bad = "equal but different hash"
            elif ra is not None and rb is not None:
                ctx.counters["pep_pairs_vs_reference"] += 1
                if (lt, eq, gt) != (ra < rb, ra == rb, ra > rb):
                    bad = f"order differs from PEP 440 reference ({'<' if ra < rb else '=' if ra == rb else '>'})"
            elif (ra is None) != (rb is None):
                ctx.counters["legacy_vs_pep_pairs"] += 1
                if (ra is None and not lt) or (rb is None and not gt):
                    bad = "non-PEP 440 string not below a PEP 440 one"
            if bad:
                ctx.violation("other:" + bad.split(" (")[0], f"{strings[i]!r} vs {strings[j]!r}: {bad} "
                              f"(lt={lt} eq={eq} gt={gt})", case={"strings": [strings[i], strings[j]]})
    ctx.counters["pairs"] += ctx.evaluations
    R = random.Random(f"{ctx.seed}:C16:tri:{ctx.shard}")
    good = [k for k in keys if k is not None]
    idx = list(range(len(good)))
    for _ in range(case.get("triples", 1000)):
        x, y, z = (good[t] for t in (R.choice(idx), R.choice(idx), R.choice(idx)))
        ctx.counters["triples"] += 1
        if x <= y and y <= z and not x <= z:
            ctx.violation("other:transitivity", f"{x!r} <= {y!r} <= {z!r} but not {x!r} <= {z!r}",
                          case={"strings": [str(x), str(y), str(z)]})
        if x < y and y < z and not x < z:
            ctx.violation("other:transitivity", f"{x!r} < {y!r} < {z!r} but not <", case={"strings": [str(x), str(y), str(z)]})
    ctx.samples.append({"strings": strings[:12]})

"""C04 - rewriting touches nothing but the matched spans.

Boundary monitors: byte/inode/mtime snapshots of the whole project tree before/after `bumpver update`, the
audit-hook write-set (must be a subset of the configured files), the expectation 'old bytes with the planted
spans replaced' and the K04 conservation contract on rewrite_lines; the same case replayed in a real subprocess
under an ASCII locale (LC_ALL=C, UTF-8 mode off) must produce identical bytes.
"""
import os
import random

from bvmon import contracts, harness, projects, updates

SPEC = dict(
    level="exploration",
    rule=("cases = generated projects whose surrounding text is arbitrary Unicode (all planes, BOM, C0/C1 controls, "
          "U+2028/2029/0085, regex metacharacters) x {LF, CRLF, CR, mixed} x with/without final newline, plus "
          "unconfigured files (incl. invalid UTF-8 bytes) that must never be written; fixed families: overlapping matches on one line; a glob entry over three files plus an entry giving one of them an extra pattern (v2 + legacy, TOML + setup.cfg); a share is replayed in a "
          "subprocess with LC_ALL=C PYTHONUTF8=0 PYTHONCOERCECLOCALE=0; non-trivial+distinct = distinct (EOL "
          "regimes present, final-newline variants, BOM?, non-ASCII?, control chars?, pattern kinds, locale) tuples"),
    assumptions=["filler contains no digits/upper-case letters (they could extend a version or form a part name); "
                 "R1 proves every layout unambiguous before the real code runs"],
    required=["glob_extra_cases", "symlinked_directory_cases", "own_line_cases", "matched_text_repeated_on_the_line", "updates_checked", "eol:LF", "eol:CRLF", "eol:CR", "eol:mixed", "locale_subprocess_runs", "bom_files",
              "unconfigured_files_checked", "k04_evaluations", "no_final_newline_files", "legacy_updates_checked",
              "overlap_cases"],
    anchors=[("rewrite", "detect_line_sep"), ("v2rewrite", "rfd_from_content"), ("v2rewrite", "rewrite_files"),
             ("v2rewrite", "iter_rewritten"), ("v2rewrite", "rewrite_lines")],
)

EOLS = ("\n", "\r\n", "\r", "mixed")
ASCII_ENV = {"LC_ALL": "C", "LANG": "C", "PYTHONUTF8": "0", "PYTHONCOERCECLOCALE": "0", "PYTHONIOENCODING": None}


OVERLAP = [
    # (version pattern, current, update args, expected new) - bumps that change the LENGTH of the version text
    ("MAJOR.MINOR.PATCH", "1.9.0", ["--minor"], "1.10.0"),
    ("MAJOR.MINOR.PATCH", "9.99.99", ["--major"], "10.0.0"),
    ("vMAJOR.MINOR[.PATCH][-TAG]", "v1.2.3-alpha", ["--tag", "final"], "v1.2.3"),
    ("vMAJOR.MINOR[.PATCH][-TAG]", "v1.2", ["--patch", "--tag", "beta"], "v1.2.1-beta"),
]
OVERLAP_DECOR = [("releases/tag/", "/docs"), ("pkg==", "; extra"), ('version="', '" # pinned'), ("<", ">"), ("v=", "=end")]


def cases(ctx):
    k = 0
    reps = 1 if ctx.quick else 12
    for rep in range(reps):
        for oi in range(len(OVERLAP)):
            for di in range(len(OVERLAP_DECOR)):
                for order in (0, 1):
                    for eol in ("\n", "\r\n", "\r"):
                        if ctx.mine(k):
                            yield {"kind": "overlap", "o": oi, "d": di, "order": order, "eol": eol, "rep": rep}
                        k += 1
    # a glob entry covering several files plus a further entry that gives ONE of them an extra pattern: the other
    # files contain text the extra pattern would match, and must keep it (patterns are per file)
    for rep in range(reps):
        for oi in range(len(OVERLAP)):
            for layout in range(4):
                for legacy in (False, True):
                    for eol in ("\n", "\r\n", "\r"):
                        if ctx.mine(k):
                            yield {"kind": "glob-extra", "o": oi, "layout": layout, "legacy": legacy, "eol": eol, "rep": rep}
                        k += 1
    # the configuration file's own current_version line (not listed under file_patterns): only the version value
    # may change - a trailing comment, a neighbouring key with a similar name and the quoting stay as they are
    for rep in range(reps):
        for oi in range(len(OVERLAP)):
            for vi in range(len(OWN_LINE_VARIANTS)):
                for fmt in ("toml", "pyproject", "cfg"):
                    if ctx.mine(k):
                        yield {"kind": "own-line", "o": oi, "variant": vi, "fmt": fmt, "rep": rep}
                    k += 1
    # "Files not named in the configuration are never written": a key that reaches its file through a symlinked
    # directory followed by `..` names the file the OS resolves, not the one a textual clean-up of the key would
    for rep in range(reps):
        for oi in range(len(OVERLAP)):
            for variant in range(3):
                if ctx.mine(k):
                    yield {"kind": "symlinked-dir", "o": oi, "variant": variant, "rep": rep}
                k += 1
    n = ctx.size(1600, 40000)
    nsub = ctx.size(48, 2400)
    for i in range(n):
        yield {"pseed": ctx.rng.getrandbits(48), "locale": i < nsub, "legacy": i % 8 == 7}


def run_legacy(ctx, case, R, mods):
    """legacy engine: same byte-exact conservation oracle (LF / CRLF / CR files, unconfigured files untouched)"""
    proj, _why = projects.gen_legacy_project(R, mods, eol_choices=("\n", "\r\n", "\r"))
    args = ["update", "--no-fetch", "--date", "2100-01-01"] + (["--patch"] if ("semver" in proj.vp or "MAJOR" in proj.vp) else [])
    files = proj.encoded()
    extra = {"unrelated.txt": ("v201701.0001 " + proj.cur_text + "\r\nkeep\n").encode()}
    files.update(extra)
    d = harness.new_project(files)
    try:
        before = harness.snapshot(d, meta=True)
        res = harness.invoke(args, cwd=d)
        after = harness.snapshot(d, meta=True)
        if res.exit_code != 0:
            ctx.count("legacy_refused")
            return
        a = res.record_value("New Version: ")
        ctx.count("legacy_updates_checked")
        ctx.evaluated(("legacy", proj.vp, tuple(proj.meta["eols"])), sample={"vp": proj.vp, "old": proj.cur_text, "new": a})
        want = projects.expected_files_legacy(proj, a)
        for fn, t in want.items():
            if after[fn][0] != t.encode("utf-8"):
                ctx.violation("other:legacy_bytes_outside_span_changed", f"{fn} (eol {proj.eol.get(fn)}): expected "
                              f"{t[:160]!r}, got {after[fn][0][:160]!r}", observed=proj.describe())
                break
        if after["unrelated.txt"] != before["unrelated.txt"]:
            ctx.violation("other:unconfigured_file_touched", "unrelated.txt (legacy engine)", observed=proj.describe())
        if not harness.writes_inside(res, d) <= set(proj.file_patterns):
            ctx.violation("other:write_outside_configured_files", f"{sorted(harness.writes_inside(res, d))}", observed=proj.describe())
    finally:
        harness.rm_dir(d)


GLOB_LEGACY = [("{semver}", "1.9.0", ["--minor"], "1.10.0"), ("{semver}", "9.99.99", ["--major"], "10.0.0"),
               ("{semver}", "0.9.9", ["--patch"], "0.9.10"),
               ("{pycalver}", "v201707.0099-beta", ["--tag", "final", "--date", "2017-07-01"], "v201707.0100")]


def run_glob_extra(ctx, case):
    vp, cur, uargs, new = (GLOB_LEGACY if case["legacy"] else OVERLAP)[case["o"]]
    eol = case["eol"]
    V = "{version}"
    base, extra = '__version__ = "' + V + '"', "Release " + V + " notes"
    body = lambda: eol.join(["# header ünï", f'__version__ = "{cur}"', "", f"Release {cur} notes", f"see {cur} elsewhere", "end"])
    files = {"pkg/a.py": body(), "pkg/b.py": body(), "pkg/c.py": body()}
    # layouts: which entries, in which order; `special` = the file that gets the extra pattern
    special = ["pkg/a.py", "pkg/b.py", "pkg/c.py", "pkg/b.py"][case["layout"]]
    entries = [("pkg/*.py", [base]), (special, [extra])]
    if case["layout"] == 3:
        entries = [("pkg/?.py", [base]), ("pkg/[b].py", [extra])]
    ini = case["rep"] % 2 == 1
    if ini:
        cfg = (f"[bumpver]\ncurrent_version = {cur}\nversion_pattern = {vp}\n\n[bumpver:file_patterns]\n"
               "setup.cfg =\n    current_version = {version}\n"
               + "".join(f"{k} =\n" + "".join(f"    {x}\n" for x in v) for k, v in entries))
        cfg_name = "setup.cfg"
    else:
        cfg = (f'[bumpver]\ncurrent_version = "{cur}"\nversion_pattern = "{vp}"\n\n[bumpver.file_patterns]\n'
               '"bumpver.toml" = [\'current_version = "{version}"\']\n'
               + "".join(f'"{k}" = [' + ", ".join(projects.toml_str(x) for x in v) + "]\n" for k, v in entries))
        cfg_name = "bumpver.toml"
    enc = {k: v.encode("utf-8") for k, v in files.items()}
    enc[cfg_name] = cfg.encode()
    d = harness.new_project(enc)
    try:
        res = harness.invoke(["update", "--no-fetch"] + uargs, cwd=d)
        after = harness.snapshot(d)
        ctx.count("glob_extra_cases")
        ctx.evaluated(("glob-extra", vp, case["layout"], eol, ini), sample={"entries": entries, "argv": res.args})
        if res.exit_code != 0 or res.record_value("New Version: ") != new:
            ctx.violation("other:glob_extra_update_failed", f"entries {entries}: exit {res.exit_code}, announced "
                          f"{res.record_value('New Version: ')!r} (expected {new!r}): {res.errors()[-2:]} {res.crash or ''}",
                          case=case)
            return
        for fn, t in files.items():
            want = t.replace(f'__version__ = "{cur}"', f'__version__ = "{new}"')
            if fn == special:
                want = want.replace(f"Release {cur} notes", f"Release {new} notes")
            if after[fn] != want.encode("utf-8"):
                ctx.violation("other:pattern_of_one_file_applied_to_another", f"entries {entries}: {fn} expected "
                              f"{want!r}, got {after[fn]!r}", case=case)
                break
    finally:
        harness.rm_dir(d)


def run_symlinked_dir(ctx, case):
    import os
    vp, cur, uargs, new = OVERLAP[case["o"]]
    d = harness.new_project({"bumpver.toml": b""})
    outside = d + ".ext"
    try:
        v = case["variant"]
        if v == 0:      # docs -> releases/v2/docs, key docs/../VERSION = releases/v2/VERSION
            os.makedirs(os.path.join(d, "releases/v2/docs"))
            os.symlink("releases/v2/docs", os.path.join(d, "docs"))
            key, named = "docs/../VERSION", os.path.join(d, "releases/v2/VERSION")
        elif v == 1:    # the link points out of the project
            os.makedirs(os.path.join(outside, "sub"))
            os.symlink(os.path.join(outside, "sub"), os.path.join(d, "ext"))
            key, named = "ext/../VERSION", os.path.join(outside, "VERSION")
        else:           # two levels
            os.makedirs(os.path.join(d, "a/b/c"))
            os.symlink("a/b/c", os.path.join(d, "cur"))
            key, named = "./cur/../../VERSION", os.path.join(d, "a/VERSION")
        text = f"VER={cur}\nkeep\n"
        with open(named, "w") as f:
            f.write(text)
        with open(os.path.join(d, "VERSION"), "w") as f:     # named nowhere
            f.write(text)
        with open(os.path.join(d, "bumpver.toml"), "w") as f:
            f.write(f'[bumpver]\ncurrent_version = "{cur}"\nversion_pattern = "{vp}"\n\n[bumpver.file_patterns]\n'
                    '"bumpver.toml" = [\'current_version = "{version}"\']\n' + f'"{key}" = ["VER={{version}}"]\n')
        res = harness.invoke(["update", "--no-fetch"] + uargs, cwd=d)
        unnamed_after = open(os.path.join(d, "VERSION")).read()
        named_after = open(named).read()
        ctx.count("symlinked_directory_cases")
        ctx.evaluated(("symlinked-dir", vp, v), sample={"key": key, "argv": res.args, "exit": res.exit_code})
        if unnamed_after != text:
            ctx.violation("other:file_not_named_in_the_configuration_written", f"key {key!r} names {named!r} (through a symlinked "
                          f"directory); ./VERSION, which no key names, was rewritten to {unnamed_after!r} (exit {res.exit_code}; the "
                          f"named file reads {named_after!r})", case=case)
        elif res.exit_code == 0 and named_after != text.replace(cur, new):
            ctx.violation("other:named_file_not_rewritten", f"key {key!r}: exit 0 but {named!r} reads {named_after!r}", case=case)
    finally:
        harness.rm_dir(d)
        harness.rm_dir(outside)


OWN_LINE_VARIANTS = [
    ("", "  # keep in sync with docs"),
    ("", "  # see CHANGELOG [{cur}]"),
    ("", "  # {cur} was released on a friday"),
    ("", "  # was {cur}, next is unknown; {cur}!"),
    ('current_version_note = "bump with care"\n', ""),
    ('current_version_file = "VERSION {cur}"\n', "  # after {cur}"),
]


def run_own_line(ctx, case):
    vp, cur, uargs, new = OVERLAP[case["o"]]
    before_tmpl, comment_tmpl = OWN_LINE_VARIANTS[case["variant"]]
    fmt = case["fmt"]
    sect = {"toml": "bumpver", "pyproject": "tool.bumpver", "cfg": "bumpver"}[fmt]
    name = {"toml": "bumpver.toml", "pyproject": "pyproject.toml", "cfg": "setup.cfg"}[fmt]
    q = '"' if fmt != "cfg" or case["rep"] % 2 == 0 else ""
    if fmt == "cfg" and "note" in before_tmpl and not q:
        before_tmpl = before_tmpl.replace('"', "")

    def text(v):
        head = "# project configuration\n" + (f"[project]\nname = \"x\"\nversion = \"0\"\n\n" if fmt == "pyproject" else "")
        body = (f"[{sect}]\n" + before_tmpl.replace("{cur}", cur) + f"current_version = {q}{v}{q}" +
                comment_tmpl.replace("{cur}", cur) + f"\nversion_pattern = {q}{vp}{q}\n")
        if fmt == "cfg":
            return head + body + "\n[bumpver:file_patterns]\nnotes.txt =\n    v={version}\n"
        return head + body + f"\n[{sect}.file_patterns]\n\"notes.txt\" = [\"v={{version}}\"]\n"

    if fmt == "cfg" and comment_tmpl:
        raise harness.Skip("ini-has-no-inline-comments")
    d = harness.new_project({name: text(cur), "notes.txt": f"v={cur}\n"})
    try:
        res = harness.invoke(["update", "--no-fetch"] + uargs, cwd=d)
        after = harness.snapshot(d)
        ctx.count("own_line_cases")
        ctx.evaluated(("own-line", vp, case["variant"], fmt, bool(q)), sample={"config": text(cur), "argv": res.args})
        if res.exit_code != 0 or res.record_value("New Version: ") != new:
            ctx.violation("other:own_line_update_failed", f"{name} with own line {text(cur).splitlines()[-6:-3]}: exit "
                          f"{res.exit_code} {res.errors()[-2:]} {res.crash or ''}", case=case)
            return
        if after[name] != text(new).encode("utf-8") or after["notes.txt"] != f"v={new}\n".encode():
            ctx.violation("own_line_pattern_rewrites_more_than_the_version", f"{name}: expected {text(new)!r}, got "
                          f"{after[name].decode('utf-8', 'replace')!r}", case=case)
    finally:
        harness.rm_dir(d)


def run_overlap(ctx, case):
    """Two patterns whose matches OVERLAP on one line (prefix-decorated and suffix-decorated {version} around the
    same occurrence), each also matching alone elsewhere, in both configuration orders, with a bump that changes
    the length of the version: exactly the version texts change, every other byte stays."""
    vp, cur, uargs, new = OVERLAP[case["o"]]
    pre, suf = OVERLAP_DECOR[case["d"]]
    eol = case["eol"]
    p1, p2 = pre + "{version}", "{version}" + suf
    pats = [p1, p2] if case["order"] == 0 else [p2, p1]
    lines = ["intro ünï", f"both: x {pre}{cur}{suf} y", "filler", f"only first: {pre}{cur} .", "",
             f"only second: {cur}{suf} .", "tail without newline"]
    # the text a pattern matched occurs a second time further right on the same line: a pattern is applied once per
    # line, so the repetition lies outside every matched span and keeps its bytes
    twice = case.get("rep", 0) % 2 == 0
    if twice:
        lines.insert(4, f"twice: {pre}{cur} and again {pre}{cur} ; {cur}{suf} then {cur}{suf} end")
    text = eol.join(lines)
    cfg = (f'[bumpver]\ncurrent_version = "{cur}"\nversion_pattern = "{vp}"\n\n[bumpver.file_patterns]\n'
           '"bumpver.toml" = [\'current_version = "{version}"\']\n"doc.txt" = ['
           + ", ".join(projects.toml_str(x) for x in pats) + "]\n")
    d = harness.new_project({"bumpver.toml": cfg, "doc.txt": text.encode("utf-8"), "NOTES.bin": b"\xff\xfe" + cur.encode()})
    try:
        res = harness.invoke(["update", "--no-fetch"] + uargs, cwd=d)
        after = harness.snapshot(d)
        ctx.count("overlap_cases")
        ctx.evaluated(("overlap", vp, case["d"], case["order"], eol), sample={"patterns": pats, "line": lines[1], "argv": res.args})
        if res.exit_code != 0 or res.record_value("New Version: ") != new:
            ctx.violation("other:overlap_update_failed", f"patterns {pats} on {lines[1]!r}: exit {res.exit_code}, "
                          f"announced {res.record_value('New Version: ')!r} (expected {new!r}): {res.errors()[-2:]}", case=case)
            return
        want_lines = [ln.replace(cur, new) for ln in lines]
        if twice:
            want_lines[4] = f"twice: {pre}{new} and again {pre}{cur} ; {new}{suf} then {cur}{suf} end"
            ctx.count("matched_text_repeated_on_the_line")
        want = eol.join(want_lines).encode("utf-8")
        if after["doc.txt"] != want:
            ctx.violation("other:overlapping_matches_corrupt_the_line", f"patterns {pats} (order {case['order']}): expected "
                          f"{want!r}, got {after['doc.txt']!r}", case=case)
        if after["NOTES.bin"] != b"\xff\xfe" + cur.encode():
            ctx.violation("other:unconfigured_file_touched", "NOTES.bin", case=case)
    finally:
        harness.rm_dir(d)


def run_case(ctx, case):
    if case.get("kind") == "overlap":
        return run_overlap(ctx, case)
    if case.get("kind") == "glob-extra":
        return run_glob_extra(ctx, case)
    if case.get("kind") == "symlinked-dir":
        return run_symlinked_dir(ctx, case)
    if case.get("kind") == "own-line":
        return run_own_line(ctx, case)
    R = random.Random(case["pseed"])
    mods = updates.bvmods()
    contracts.install_k04()
    tdy = updates.today()
    if case.get("legacy"):
        return run_legacy(ctx, case, R, mods)
    proj, why = projects.gen_project(R, mods, tdy, eol_choices=EOLS, filler="unicode", bom_p=0.25,
                                     n_files=R.randint(1, 4), globs=False)
    if proj is None:
        raise harness.Skip(why)
    fl, date, exp, why = updates.plan_update(R, proj.vp, proj.cur_text, proj.cur_state, tdy)
    if exp is None:
        raise harness.Skip("no-successful-update-planned")
    files = proj.encoded()
    extra = {"unrelated.txt": "v1.2.3 2020.1001 " + proj.cur_text + "\r\nkeep\n",
             "notes/keep.bin": bytes(R.randrange(256) for _ in range(64)) + b"\xff\xfe" + proj.cur_text.encode()}
    files.update({k: (v if isinstance(v, bytes) else v.encode()) for k, v in extra.items()})
    d = harness.new_project(files)
    d2 = None
    try:
        before = harness.snapshot(d, meta=True)
        res = harness.invoke(updates.update_args(fl, date), cwd=d)
        after = harness.snapshot(d, meta=True)
        desc = {"project": proj.describe(), "argv": res.args}
        if res.exit_code != 0:
            if res.record_value("New Version: ") is None and res.crash is None:
                ctx.count("refused_before_rewrite")
                return
            ctx.violation("other:update_failed_on_proven_layout", f"exit {res.exit_code}: {res.errors()[-3:]} {res.crash}",
                          observed=dict(desc, res=res.brief()))
            return
        a = res.record_value("New Version: ")
        st2 = updates.new_state_from_text(proj.vp, a, tdy)
        problems = projects.check_after(proj, {k: v[0] for k, v in after.items() if k not in extra}, st2, a,
                                        check_pep=False)
        for pr in problems:
            ctx.violation("other:" + pr[0], f"{pr[1]} (vp={proj.vp!r}, eol={proj.eol})", observed=desc)
        # unconfigured files: bytes, inode and mtime untouched, never opened for writing
        for k in extra:
            ctx.count("unconfigured_files_checked")
            if after.get(k) != before.get(k):
                ctx.violation("other:unconfigured_file_touched", f"{k}: {before.get(k)[1:]} -> {after.get(k, (None,))[1:]}",
                              observed=desc)
        wset = harness.writes_inside(res, d)
        allowed = set(proj.file_patterns)
        if not wset <= allowed:
            ctx.violation("other:write_outside_configured_files", f"write-set {sorted(wset)} vs configured {sorted(allowed)}",
                          observed=desc)
        for w in contracts.K04_WITNESSES:
            ctx.violation("other:k04_" + w[0], f"rewrite_lines: {w}", observed=desc)
        del contracts.K04_WITNESSES[:]
        ctx.counters["k04_evaluations"] = contracts.K04_EVALS[0]
        ctx.count("updates_checked")
        eols = sorted(set(proj.eol[f] for f in proj.files if f != proj.cfg_name))
        for e in eols:
            ctx.count("eol:" + e)
        nonl = sum(1 for f, t in proj.files.items() if not t.endswith(("\n", "\r")))
        if nonl:
            ctx.count("no_final_newline_files", nonl)
        if proj.meta.get("bom_files"):
            ctx.count("bom_files", len(proj.meta["bom_files"]))
        text_all = "".join(proj.files.values())
        ntk = (tuple(eols), nonl > 0, bool(proj.meta.get("bom_files")), any(ord(c) > 127 for c in text_all),
               any(ord(c) < 32 and c not in "\r\n\t" for c in text_all), tuple(proj.meta["kinds"]), case.get("locale", False))
        ctx.evaluated(ntk, sample={"vp": proj.vp, "old": proj.cur_text, "new": a, "eol": proj.eol,
                                   "file": repr(list(proj.files.values())[0][:160])})
        if case.get("locale"):
            d2 = harness.new_project(files)
            rc, out, err = harness.run_cli_subprocess(updates.update_args(fl, date), cwd=d2, env=ASCII_ENV)
            ctx.count("locale_subprocess_runs")
            after2 = harness.snapshot(d2)
            if rc != 0:
                ctx.violation("other:ascii_locale_run_fails", f"exit {rc} under LC_ALL=C: {err[-400:]}", observed=desc)
            else:
                diff = harness.diff_snapshots({k: v[0] for k, v in after.items()}, after2)
                if diff:
                    ctx.violation("other:ascii_locale_run_differs", f"files differ between UTF-8 and ASCII locale: {diff}",
                                  observed=desc)
            # PEP 597 tripwire (informational): locale-dependent open() calls inside bumpver
            if R.random() < 0.25:
                d3 = harness.new_project(files)
                try:
                    rc3, out3, err3 = harness.run_cli_subprocess(updates.update_args(fl, date), cwd=d3,
                                                                 extra_py_args=("-X", "warn_default_encoding"))
                    n = sum(1 for ln in err3.splitlines() if "EncodingWarning" in ln and "bumpver" in ln)
                    ctx.count("encoding_warnings_in_bumpver", n)
                    ctx.count("encoding_warning_runs")
                finally:
                    harness.rm_dir(d3)
    finally:
        harness.rm_dir(d)
        if d2:
            harness.rm_dir(d2)

"""C20 - legacy {..} patterns render, read back and increase consistently.

Monitors: reference model for the legacy parts (bvmon/ref_v1.py) against the real v1 renderer/reader;
PEP 440 / plain-string ordering of `bumpver test` results incl. chains of 1,000 bumps; files rewritten by
`update`; engine-dispatch trace (which of the v1/v2 functions ran in `test`, `update`, `show`).
"""
import datetime as dt
import random
import re

from packaging.version import InvalidVersion, Version

from bvmon import contracts, harness, ref_v1, updates

SIX = ["{pycalver}", "{semver}", "v{year}{month}{build}{release}", "{year}{month}{build}{release}",
       "v{year}{build}{release}", "{year}{build}{release}"]
PEP_FORM = {"{pycalver}": "{year}{month}.{BID}{pep440_tag}", "{semver}": "{MAJOR}.{MINOR}.{PATCH}",
            "v{year}{month}{build}{release}": "{year}{month}.{BID}{pep440_tag}",
            "{year}{month}{build}{release}": "{year}{month}.{BID}{pep440_tag}",
            "v{year}{build}{release}": "{year}.{BID}{pep440_tag}", "{year}{build}{release}": "{year}.{BID}{pep440_tag}"}
COMBOS = ["{calver}{build}{release}", "{year}.{month}.{dom}", "{year}.{doy}", "v{year}.{doy}.{build_no}",
          "{year}q{quarter}.{build_no}", "{MAJOR}.{MINOR}.{PATCH}{release}", "v{yy}.{month}.{MINOR}",
          "{year}.{month}.{PATCH}{release}", "{year}{month}{dom}.{BID}", "v{MAJOR}.{MINOR}.{PATCH}",
          "{year}.{quarter}.{MINOR}.{PATCH}", "{yy}{month}.{build_no}{release}", "{year}-{month}-{dom}{release}",
          "{semver}{release}", "r{year}.{month}{build}"]
SHORTS = ["{year}.{month_short}.{dom_short}", "{year}.{doy_short}", "{year}.{month_short}.{PATCH}",
          "v{year}.{month_short}.{dom_short}{release}", "{yy}.{doy_short}.{MINOR}"]

SPEC = dict(
    level="exploration",
    rule=("patterns = {pycalver}, {semver}, {calver}{build}{release}, the six patterns with a {pep440_version} mapping "
          "and 15 combinations of year/month/dom/doy/quarter/build_no/release/MAJOR/MINOR/PATCH (+ 5 patterns of the "
          "_short variants as a separate class) x dates 2000..2099 x build ids x tags: render/read-back through the "
          "real v1 functions vs. the legacy reference model; `bumpver test` results (single steps and chains of 1,000 "
          "bumps); `update` in small projects; non-trivial+distinct = distinct (pattern, tag, id width, oracle) tuples"),
    assumptions=["bvmon/ref_v1.py renders/reads the legacy parts from their documented composites",
                 "{iso_week}/{us_week} and the zero-padded {MM}/{PPP}/{BBB} families are outside the statement"],
    required=["roundtrips", "test_accepted", "chain_steps", "pycalver_string_order_checks", "updates_ok",
              "dispatch_checked", "short_roundtrips", "legacy_pin_date_cases", "legacy_pin_date_bumps_that_must_succeed", "follow_up_updates", "show_environ_checked",
              "legacy_both_placeholders_in_one_pattern"],
    anchors=[("v1version", "parse_version_info"), ("v1version", "format_version"), ("v1version", "incr"),
             ("cli", "incr_dispatch"), ("v1patterns", "_compile_pattern_re")],
)

BIDS = ["0001", "0999", "1000", "1001", "1999", "8999", "9998", "22000", "0033", "10000", "99998", "0000"]
PINNED = [
    {"kind": "rt", "pattern": "{year}.{month_short}.{dom_short}", "date": "2028-08-20", "bid": "1000", "tag": "final",
     "mmp": [0, 0, 0]},
    {"kind": "rt", "pattern": "{year}.{doy_short}", "date": "2028-01-05", "bid": "1000", "tag": "final", "mmp": [0, 0, 0]},
]


def cases(ctx):
    R = ctx.rng
    pats = SIX + COMBOS + SHORTS
    # every date 2000..2099 once per shard-slice, pattern cycled
    d = dt.date(2000, 1, 1)
    k = 0
    step = 1 if not ctx.quick else 3
    while d <= dt.date(2099, 12, 31):
        if ctx.mine(k):
            yield {"kind": "rt", "pattern": pats[k % len(pats)], "date": d.isoformat(), "bid": BIDS[k % len(BIDS)],
                   "tag": ref_v1.TAGS[k % 6], "mmp": [k % 3, (k // 3) % 11, (k // 7) % 101]}
        k += 1
        d += dt.timedelta(step)
    for _ in range(ctx.size(15000, 600000)):
        yield {"kind": "test", "seed": R.getrandbits(48)}
    for _ in range(ctx.size(16, 64)):
        yield {"kind": "chain", "seed": R.getrandbits(48), "steps": 1000}
    for _ in range(ctx.size(320, 8000)):
        yield {"kind": "update", "seed": R.getrandbits(48)}


def mk_vinfo(bvv, st):
    return bvv.V1VersionInfo(year=st["year"], quarter=st["quarter"], month=st["month"], dom=st["dom"], doy=st["doy"],
                             iso_week=None, us_week=None, major=st["major"], minor=st["minor"], patch=st["patch"],
                             bid=st["bid"], tag=st["tag"])


def classify(pattern, what):
    if "_short}" in pattern:
        return "short_part_recogniser"
    return "other:" + what


def roundtrip(ctx, case):
    harness.bv()
    import bumpver.v1version as v1v
    import bumpver.version as bvv
    p = case["pattern"]
    ast = ref_v1.parse_pattern(p)
    d = dt.date.fromisoformat(case["date"])
    st = ref_v1.state_from_date(d, case["bid"], case["tag"], *case["mmp"])
    try:
        t = v1v.format_version(mk_vinfo(bvv, st), p)
    except Exception as ex:
        ctx.violation(classify(p, "render_raises"), f"{p!r}: {type(ex).__name__}: {ex}", case=case)
        return
    exp = ref_v1.render(ast, st)
    short = "_short}" in p
    ctx.counters["short_roundtrips" if short else "roundtrips"] += 1
    ctx.evaluated((p, case["tag"], len(case["bid"]), "rt"), sample={"pattern": p, "rendered": t})
    if t != exp:
        ctx.violation(classify(p, "render_differs_from_reference"), f"{p!r}: rendered {t!r}, reference {exp!r}", case=case)
        return
    try:
        back = harness.call(v1v.parse_version_info, t, p)
    except bvv.PatternError as ex:
        ctx.violation(classify(p, "not_recognised"), f"{p!r}: own rendering {t!r} rejected: {str(ex)[:100]}", case=case)
        return
    except Exception as ex:
        ctx.violation(classify(p, "readback_raises"), f"{p!r} {t!r}: {type(ex).__name__}: {ex}", case=case)
        return
    m = harness.bv()
    import bumpver.v1patterns as v1p
    full = v1p.compile_pattern(p).regexp.fullmatch(t)
    if full is None:
        ctx.violation(classify(p, "not_accepted_in_full"), f"{p!r}: rendering {t!r} is only matched as a prefix", case=case)
        return
    for name in ref_v1.parts_in(ast):
        f = ref_v1.FIELD[name]
        got, want = getattr(back, f), st[f]
        if name == "yy":
            want = 2000 + want % 100
        if name == "BID":
            want = str(int(want))  # {BID} is the id without leading zeros
        if got != want:
            ctx.violation(classify(p, "readback_part_differs"), f"{p!r} text {t!r}: {name} read back as {got!r}, "
                          f"rendered from {want!r}", case=case)
            return
    t2 = v1v.format_version(back, p)
    if t2 != t:
        ctx.violation(classify(p, "rerender_differs"), f"{p!r}: {t!r} re-rendered as {t2!r}", case=case)


def gt_oracle(ctx, p, old, new, case):
    try:
        vo, vn = Version(old), Version(new)
        if not vn > vo:
            ctx.violation(classify(p, "result_not_greater"), f"test {old!r} {p!r}: {new!r} is not > under PEP 440", case=case)
    except InvalidVersion:
        ctx.counters["weak_oracle_non_pep440"] += 1
        if new == old:
            ctx.violation(classify(p, "result_equals_input"), f"{p!r}: {old!r} -> {new!r}", case=case)
    if p == "{pycalver}":
        ctx.counters["pycalver_string_order_checks"] += 1
        if not new > old:
            ctx.violation("other:pycalver_not_greater_as_string", f"{old!r} -> {new!r}", case=case)
    if ref_v1.parse(ref_v1.parse_pattern(p), new) is None:
        ctx.violation(classify(p, "result_not_accepted_by_pattern"), f"{p!r}: announced {new!r}", case=case)


def flags_for(R, p):
    args = []
    if "MAJOR" in p or "semver" in p:
        r = R.random()
        if r < 0.2:
            args.append("--major")
        elif r < 0.5:
            args.append("--minor")
        elif r < 0.85:
            args.append("--patch")
    elif "{MINOR}" in p and R.random() < 0.6:
        args.append("--minor")
    elif "{PATCH}" in p and R.random() < 0.6:
        args.append("--patch")
    if ("release" in p or "pycalver" in p or "{tag}" in p) and R.random() < 0.3:
        args += ["--tag", R.choice(ref_v1.TAGS)]
    return args


def gen_start(R, short_ok=True):
    pats = SIX + COMBOS + (SHORTS if short_ok else [])
    p = R.choice(pats)
    ast = ref_v1.parse_pattern(p)
    d = dt.date(2000, 1, 1) + dt.timedelta(R.randint(0, 36000))
    names = ref_v1.parts_in(ast)
    has_tag = any(n in names for n in ("release", "tag", "pep440_tag"))
    st = ref_v1.state_from_date(d, R.choice(BIDS), R.choice(ref_v1.TAGS) if has_tag else "final",
                                R.choice([0, 1, 9]), R.choice([0, 9, 10]), R.choice([0, 1, 99]))
    return p, ast, d, st, ref_v1.render(ast, st)


def run_case(ctx, case):
    contracts.install_engine_monitor()
    k = case["kind"]
    if k == "rt":
        return roundtrip(ctx, case)
    R = random.Random(case["seed"])
    if k == "test":
        p, ast, d, st, old = gen_start(R)
        if ref_v1.parse(ast, old) is None:
            raise harness.Skip("start-not-readable-by-model")
        date = d + dt.timedelta(R.choice([0, 0, 1, 31, 366, -1, -400, -100, -45]))
        if R.random() < 0.15:
            args = ["test", old, p] + flags_for(R, p) + ["--pin-date"]
            ctx.counters["legacy_pin_date_cases"] += 1
        else:
            args = ["test", old, p] + flags_for(R, p) + ["--date", date.isoformat()]
        res = harness.invoke(args)
        # (the same holds for a bump date EARLIER than the version's own date: the calendar parts are kept)
        must_succeed = ("--pin-date" in args or date < d) and "--tag" not in args and bool(
            [t for n, t in (ref_v1.parse(ast, old) or []) if ref_v1.FIELD.get(n) == "bid" and set(t) != {"9"}])
        if must_succeed:
            ctx.counters["legacy_pin_date_bumps_that_must_succeed"] += 1
        eng = contracts.engines_used(res.trace)
        ctx.counters["dispatch_checked"] += 1
        used = set().union(*eng.values()) if eng else set()
        if "v2" in used:
            ctx.violation("other:legacy_pattern_handled_by_new_engine", f"{args}: {eng}", case=case)
        ctx.evaluated((p, st["tag"], len(st["bid"]), "test", res.exit_code == 0), sample={"argv": args, "out": res.stdout})
        if res.exit_code == 0:
            new = res.stdout_value("New Version: ")
            ctx.counters["test_accepted"] += 1
            gt_oracle(ctx, p, old, new, dict(case, argv=args))
            # calendar parts: unchanged under --pin-date or when the bump date is earlier; else those of the date
            nraw = ref_v1.parse(ast, new) if new else None
            if nraw:
                pinned = "--pin-date" in args or date < d
                want = st if pinned else ref_v1.state_from_date(date)
                for name, txt in nraw:
                    f = ref_v1.FIELD[name]
                    if f in ("year", "month", "dom", "doy", "quarter"):
                        exp_txt = ref_v1.render_part(name, want)
                        if txt != exp_txt:
                            ctx.violation(classify(p, "legacy_calendar_part_wrong"), f"{args}: {name} is {txt!r}, expected "
                                          f"{exp_txt!r} ({'kept' if pinned else 'from the date'})", case=case)
                            break
        elif res.crash and not res.crash.startswith("OverflowError"):
            ctx.violation(classify(p, "test_crash"), f"{args}: {res.crash[:300]}", case=case)
        elif must_succeed:
            # the date is kept, the build id grows: the result reads back with the SAME calendar parts and is greater
            # - there is nothing that could make this bump fail
            ctx.violation(classify(p, "legacy_pinned_bump_refused"), f"{args}: exit {res.exit_code} {res.errors()[-2:]}", case=case)
        return
    if k == "chain":
        p = R.choice(["{pycalver}", "{pycalver}", "{year}{build}{release}", "{semver}", "v{year}{month}{build}{release}"])
        ast = ref_v1.parse_pattern(p)
        d = dt.date(2000, 1, 1) + dt.timedelta(R.randint(0, 3000))
        st = ref_v1.state_from_date(d, R.choice(["0001", "0990", "1000", "1990", "8990"]), R.choice(ref_v1.TAGS), 0, 0, 0)
        cur = ref_v1.render(ast, st)
        n = 0
        for _ in range(case["steps"]):
            d = d + dt.timedelta(R.choice([0, 0, 0, 1, 20]))
            if d.year > 2099:
                break
            args = ["test", cur, p] + flags_for(R, p) + ["--date", d.isoformat()]
            if p == "{semver}" and not any(a in args for a in ("--major", "--minor", "--patch")):
                args.insert(3, "--patch")
            res = harness.invoke(args)
            ctx.counters["chain_steps"] += 1
            if res.exit_code != 0:
                if res.crash and res.crash.startswith("OverflowError"):
                    break
                ctx.violation(classify(p, "chain_step_refused"), f"{args}: {res.errors()[-2:]} {res.crash or ''}",
                              case=case)
                break
            new = res.stdout_value("New Version: ")
            gt_oracle(ctx, p, cur, new, dict(case, at=cur))
            cur = new
            n += 1
        ctx.evaluated((p, "chain", min(n, 3)), sample={"pattern": p, "steps": n, "last": cur})
        return
    if k == "update":
        return run_update(ctx, case, R)


def run_update(ctx, case, R):
    p, ast, d, st, old = gen_start(R, short_ok=False)
    if ref_v1.parse(ast, old) is None:
        raise harness.Skip("start-not-readable-by-model")
    has_pep = p in SIX
    both = False
    lines = ["intro text", f'__version__ = "{old}"', "middle"]
    pats = ['__version__ = "{version}"']
    if has_pep:
        # what the legacy engine itself writes for {pep440_version} (documented mapping of the six patterns)
        pep_text = ref_v1.render(ref_v1.parse_pattern(PEP_FORM[p]), st)
        lines.append(f"pip install pkg=={pep_text} ;")
        pats.append("pkg=={pep440_version} ;")
        if R.random() < 0.4:
            # both placeholders in ONE pattern (the usual README line): the same legacy parts occur twice
            lines.append(f"Release {old} (pip: {pep_text}) .")
            pats.append("Release {version} (pip: {pep440_version}) .")
            both = True
    cfg = (f'[bumpver]\ncurrent_version = "{old}"\nversion_pattern = "{p}"\n\n[bumpver.file_patterns]\n'
           f'"bumpver.toml" = [\'current_version = "{{version}}"\']\n"a.txt" = [\n'
           + "".join(f"    {updates_toml(x)},\n" for x in pats) + "]\n")
    files = {"bumpver.toml": cfg, "a.txt": "\n".join(lines) + "\n"}
    dpath = harness.new_project(files)
    try:
        date = d + dt.timedelta(R.choice([0, 1, 31, 366]))
        args = ["update", "--no-fetch"] + flags_for(R, p) + ["--date", date.isoformat()]
        if "semver" in p or ("MAJOR" in p and not any(a in args for a in ("--major", "--minor", "--patch"))):
            if not any(a in args for a in ("--major", "--minor", "--patch")):
                args.append("--patch")
        res = harness.invoke(args, cwd=dpath)
        eng = contracts.engines_used(res.trace)
        used = set().union(*eng.values()) if eng else set()
        ctx.counters["dispatch_checked"] += 1
        if "v2" in used:
            ctx.violation("other:legacy_pattern_handled_by_new_engine", f"update {p!r}: {eng}", case=case)
        sres = harness.invoke(["show", "--no-fetch"], cwd=dpath)
        eng2 = contracts.engines_used(sres.trace)
        if "v2" in (set().union(*eng2.values()) if eng2 else set()) - {"v2"} | \
                ({"v2"} & set().union(*[v for k_, v in eng2.items() if k_ == "is_valid"] or [set()])):
            ctx.violation("other:legacy_pattern_handled_by_new_engine", f"show {p!r}: {eng2}", case=case)
        ctx.evaluated((p, st["tag"], "update", res.exit_code == 0), sample={"argv": args, "pattern": p, "old": old})
        if res.exit_code != 0:
            if res.crash and not res.crash.startswith("OverflowError"):
                ctx.violation(classify(p, "update_crash"), f"{args}: {res.crash[:300]}", case=case)
            elif res.record_value("New Version: ") is not None:
                # the version gate was passed: the project is consistent by construction, so the rewrite phase
                # must find every configured occurrence (incl. the {pep440_version} one)
                ctx.violation("other:legacy_update_fails_in_rewrite_phase", f"{args} on {p!r} {old!r}: "
                              f"{res.errors()[-3:]}", case=case)
            ctx.counters["updates_refused"] += 1
            return
        new = res.record_value("New Version: ")
        gt_oracle(ctx, p, old, new, case)
        ctx.counters["updates_ok"] += 1
        if both:
            ctx.counters["legacy_both_placeholders_in_one_pattern"] += 1
            ln = harness.snapshot(dpath)["a.txt"].decode().split("\n")[4]
            m = re.fullmatch(r"Release (.+?) \(pip: (.+?)\) \.", ln)
            try:
                ok = m is not None and m.group(1) == new and Version(m.group(2)) == Version(new)
            except InvalidVersion:
                ok = False
            if not ok:
                ctx.violation("other:legacy_rewrite_wrong", f"{p!r}: line with both placeholders reads {ln!r} after the "
                              f"update to {new!r}", case=case)
        after = harness.snapshot(dpath)
        a_txt = after["a.txt"].decode()
        want = ["intro text", f'__version__ = "{new}"', "middle"]
        got = a_txt.split("\n")
        if got[:3] != want:
            ctx.violation("other:legacy_rewrite_wrong", f"{p!r}: a.txt lines {got[:3]} expected {want}", case=case)
        if has_pep:
            x = got[3][len("pip install pkg=="):-2]
            try:
                if Version(x) != Version(new):
                    ctx.violation("other:legacy_pep440_occurrence_differs", f"{p!r}: wrote {x!r} for {new!r}", case=case)
            except InvalidVersion:
                ctx.violation("other:legacy_pep440_occurrence_invalid", f"{p!r}: wrote {x!r} for {new!r}", case=case)
        cur = sres.stdout_value("Current Version: ")
        if cur != new:
            ctx.violation("other:show_disagrees", f"{p!r}: show says {cur!r} after update to {new!r}", case=case)
        # the machine-readable form of `show` reads the same configuration through the same (legacy) engine
        for flag in ("--environ", "--env"):
            eres = harness.invoke(["show", "--no-fetch", flag], cwd=dpath)
            ctx.counters["show_environ_checked"] += 1
            eng3 = contracts.engines_used(eres.trace)
            if eres.crash or eres.exit_code != 0 or eres.stdout_value("CURRENT_VERSION=") != new:
                ctx.violation("show_environ_reads_legacy_version_with_new_engine" if (eres.crash and "PatternError" in eres.crash)
                              else "other:show_environ_fails", f"show {flag} on {p!r} {new!r}: exit {eres.exit_code} "
                              f"{(eres.crash or '')[-200:]} engines={eng3}", case=case)
                break
        # further updates on what the engine itself wrote (its own {pep440_version} text must be found again)
        prev = new
        for k in range(2):
            date = date + dt.timedelta(R.choice([1, 31, 366]))
            args2 = ["update", "--no-fetch"] + flags_for(R, p) + ["--date", date.isoformat()]
            if ("semver" in p or "MAJOR" in p) and not any(a in args2 for a in ("--major", "--minor", "--patch")):
                args2.append("--patch")
            res2 = harness.invoke(args2, cwd=dpath)
            ctx.counters["follow_up_updates"] += 1
            if res2.exit_code != 0:
                if res2.crash and not res2.crash.startswith("OverflowError"):
                    ctx.violation(classify(p, "update_crash"), f"follow-up {args2}: {res2.crash[:300]}", case=case)
                elif res2.record_value("New Version: ") is not None:
                    ctx.violation("other:legacy_update_fails_in_rewrite_phase", f"follow-up {args2} on {p!r} after the "
                                  f"engine's own update to {prev!r}: {res2.errors()[-3:]}", case=case)
                break
            new2 = res2.record_value("New Version: ")
            gt_oracle(ctx, p, prev, new2, case)
            got = harness.snapshot(dpath)["a.txt"].decode().split("\n")
            if got[:3] != ["intro text", f'__version__ = "{new2}"', "middle"]:
                ctx.violation("other:legacy_rewrite_wrong", f"follow-up {p!r}: a.txt lines {got[:3]}", case=case)
                break
            if has_pep:
                x = got[3][len("pip install pkg=="):-2]
                try:
                    if Version(x) != Version(new2):
                        ctx.violation("other:legacy_pep440_occurrence_differs", f"follow-up {p!r}: wrote {x!r} for {new2!r}", case=case)
                except InvalidVersion:
                    ctx.violation("other:legacy_pep440_occurrence_invalid", f"follow-up {p!r}: wrote {x!r} for {new2!r}", case=case)
            prev = new2
    finally:
        harness.rm_dir(dpath)


def updates_toml(s):
    from bvmon.projects import toml_str
    return toml_str(s)

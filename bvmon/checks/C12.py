"""C12 - messages, tag names and paths reach the VCS verbatim.

Monitors: K12 (argv construction contract on vcs.VCSAPI.__call__, observed through the audit hook) + the
NUL-exact argv log of the fake git/hg (message = exactly one element after --message, tag name = new version,
one `add` per configured path; same argv SHAPE as a run with benign values) + read-back of commit / tag
objects from real git repositories.
"""
import os
import random
import re
import subprocess

from bvmon import contracts, harness, projects

SPEC = dict(
    level="exploration",
    rule=("cases = commit/tag message templates over printable Unicode incl. ' \" \\ space leading-dash $ ` newline "
          "with the documented placeholders and OLD/NEW shorthand (given on the CLI) + file names with the same "
          "characters (TOML-quoted keys) against the fake git and hg; a clean-up-stable subset through real git; "
          "non-trivial+distinct = distinct (value kind, hostile character class) pairs"),
    assumptions=["expected message = template with placeholders replaced textually (own implementation)",
                 "templates contain no braces other than documented placeholders; OLD/NEW occur as separate words",
                 "real git: only messages that git's own whitespace/comment clean-up leaves unchanged are read back"],
    required=["real_git_leading_dash_paths", "real_git_pathspec_neighbours", "real_git_push_runs", "real_git_push_from_branch_tracking_a_local_branch", "real_git_push_with_column_ui_always", "hg_runs_with_blank_in_tmpdir", "real_git_runs_with_a_global_pathspec_switch_exported", "real_git_push_with_branch_named_like_the_new_tag", "real_git_push_to_tracked_remote_not_named_origin", "fake_git_runs", "fake_hg_runs", "real_git_runs", "k12_evaluations", "class:squote", "class:dquote",
              "class:backslash", "class:newline", "class:leading-dash", "class:dollar", "class:backtick",
              "hostile_paths_checked", "templates_from_config", "config_templates_with_OLD_NEW_words",
              "templates_from_setup_cfg", "ini_templates_with_percent", "empty_tag_message_from_config"],
    anchors=[("vcs", "commit"), ("cli", "_sub_msg_template"), ("cli", "update")],
)

CLASSES = {
    "squote": ["'", "it's", "' --author='evil <e@x>", "'; echo pwned; '"],
    "dquote": ['"', 'say "hi"', '" --amend "'],
    "backslash": ["\\", "a\\b", "\\n", "trailing\\", "\\'"],
    "space": ["two  spaces", " lead", "trail ", "a b c"],
    "leading-dash": ["-m", "--amend", "-"],
    "dollar": ["$HOME", "${PATH}x".replace("{", "(").replace("}", ")"), "$(id)"],
    "backtick": ["`id`", "a`b"],
    "newline": ["line1\nline2", "subject\n\nbody text", "x\ny\nz"],
    "unicode": ["ünïcödé", "日本語", "🚀 release", " nbsp"],
    "shell": ["a;b", "a|b", "a&b", "a>b", "*", "?", "~", "#hash", "(x)"],
    "percent": ["%s", "100% done", "%%", "%(name)s", "50%-off"],
}
PLACEHOLDERS = ["{new_version}", "{old_version}", "{new_version_pep440}", "{old_version_pep440}", "{NEW_VERSION}",
                "{OLD_VERSION}"]
PATH_NAMES = ["it's.txt", 'we"ird.md', "sp ace.txt", "do$llar.txt", "back`tick.txt", "semi;colon.txt", "ünï.txt",
              "per%cent.txt", "amp&er.txt", "paren(s).txt", "-dash.txt", "two  spaces.txt", "ha#sh.txt", "til~de.txt",
              "sub dir/in ner.txt", "back\\slash.txt", "plain.txt", ":colon.txt", ":(top)magic.txt"]


def gen_template(R, hostile=True):
    """(template, classes used). OLD/NEW shorthand appears as separate words."""
    parts = []
    used = set()
    n = R.randint(1, 4)
    for _ in range(n):
        r = R.random()
        if r < 0.35:
            parts.append(R.choice(PLACEHOLDERS))
        elif r < 0.5:
            parts.append(R.choice(["OLD", "NEW"]))
            used.add("shorthand")
        elif hostile:
            c = R.choice(list(CLASSES))
            parts.append(R.choice(CLASSES[c]))
            used.add(c)
        else:
            parts.append(R.choice(["bump", "release", "version"]))
    sep = R.choice([" ", " ", " - ", ": "])
    t = sep.join(parts)
    if not t.strip():
        t = "bump " + t
    return t, used


def expand(template, old, new, old_pep, new_pep, cli=True):
    t = template
    if cli:
        t = re.sub(r"(?<![A-Za-z0-9_])(OLD|NEW)(?![A-Za-z0-9_])", lambda m: old if m.group(1) == "OLD" else new, t)
    for k, v in (("{new_version_pep440}", new_pep), ("{old_version_pep440}", old_pep), ("{new_version}", new),
                 ("{old_version}", old), ("{NEW_VERSION}", new), ("{OLD_VERSION}", old)):
        t = t.replace(k, v)
    return t


def cases(ctx):
    R = ctx.rng
    for i in range(ctx.size(2000, 80000)):
        yield {"kind": "fake", "seed": R.getrandbits(48), "vcs": "hg" if i % 4 == 3 else "git"}
    for _ in range(ctx.size(64, 2000)):
        yield {"kind": "real", "seed": R.getrandbits(48)}


def build_project_ini(R, names, commit_msg_cfg, tag_msg_cfg):
    """the same project configured through setup.cfg (only names / values expressible in INI)"""
    lines = ["[bumpver]", f'current_version = "{OLD}"', f'version_pattern = "{VP}"',
             "commit = True", "tag = True", "push = False",
             f'commit_message = "{commit_msg_cfg}"', f'tag_message = "{tag_msg_cfg}"', "", "[bumpver:file_patterns]",
             "setup.cfg =", '    current_version = "{version}"']
    files = {}
    for n in names:
        lines += [f"{n} =", "    ver {version}"]
        files[n] = f"text\nver {OLD}\n"
    files["setup.cfg"] = "\n".join(lines) + "\n"
    return files


def build_project(R, names, commit_msg_cfg=None, tag_msg_cfg=None):
    lines = ["[bumpver]", f"current_version = {projects.toml_str(OLD)}", f"version_pattern = {projects.toml_str(VP)}",
             "commit = true", "tag = true", "push = false"]
    if commit_msg_cfg:
        lines.append(f"commit_message = {projects.toml_str(commit_msg_cfg)}")
    if tag_msg_cfg is not None:
        lines.append(f"tag_message = {projects.toml_str(tag_msg_cfg)}")
    lines += ["", "[bumpver.file_patterns]", '"bumpver.toml" = [\'current_version = "{version}"\']']
    files = {}
    for n in names:
        lines.append(f'{toml_key(n)} = ["ver {{version}}"]')
        files[n] = f"text\nver {OLD}\n"
    files["bumpver.toml"] = "\n".join(lines) + "\n"
    return files


def toml_key(n):
    """the `toml` library mis-reads escaped quotes/backslashes in basic-string keys: use literal keys for those"""
    if ('"' in n or "\\" in n) and "'" not in n:
        return "'" + n + "'"
    return projects.toml_str(n)


# version schemes: the tag name is the version, so its literal characters travel through the VCS command line too
SCHEMES = [("vMAJOR.MINOR.PATCH[-TAG]", "v1.2.3-beta", "v1.2.4-beta", "1.2.3b0", "1.2.4b0"),
           ("1!MAJOR.MINOR.PATCH", "1!1.2.3", "1!1.2.4", "1!1.2.3", "1!1.2.4"),
           ("rel(MAJOR.MINOR.PATCH)", "rel(1.2.3)", "rel(1.2.4)", "rel(1.2.3)", "rel(1.2.4)"),
           ("MAJOR.MINOR.PATCH+l0cal&x", "1.2.3+l0cal&x", "1.2.4+l0cal&x", "1.2.3+l0cal&x", "1.2.4+l0cal&x"),
           ("MAJOR.MINOR.PATCH;q'x", "1.2.3;q'x", "1.2.4;q'x", "1.2.3;q'x", "1.2.4;q'x")]
VP, OLD, NEW, OLD_PEP, NEW_PEP = SCHEMES[0]


def use_scheme(i):
    global VP, OLD, NEW, OLD_PEP, NEW_PEP
    VP, OLD, NEW, OLD_PEP, NEW_PEP = SCHEMES[i]


PINNED = [{"kind": "fake", "seed": 12, "vcs": "git", "cm": "'quoted' -> {new_version} \"x\"", "tm": " {new_version} "}]


def run_fake(ctx, case):
    R = random.Random(case["seed"])
    contracts.install_k12()
    vcs = case["vcs"]
    sch = 0 if "cm" in case or R.random() < 0.5 else R.randrange(1, len(SCHEMES))
    use_scheme(sch)
    ctx.count(f"version_scheme:{sch}")
    names = R.sample(PATH_NAMES, R.randint(1, 3))
    cm, used_c = gen_template(R)
    tm, used_t = gen_template(R)
    # a third of the cases give the templates in the CONFIG file: the OLD/NEW shorthand is a command line
    # feature, a configured template is used verbatim (only the {placeholders} are substituted)
    via_cfg = R.random() < 0.34
    # templates that begin or end with a quote character or a blank: legal TOML strings (only generated for TOML)
    edge_ok = R.random() < 0.3
    if via_cfg:
        def cfg_ok(t):
            return (edge_ok or t == t.strip("'\" ")) and "\n" not in t and t != "" and t.strip("'\" ") != ""
        for _ in range(30):
            if cfg_ok(cm) and cfg_ok(tm):
                break
            cm, used_c = gen_template(R)
            tm, used_t = gen_template(R)
        else:
            via_cfg = False
    if "cm" in case:
        via_cfg, cm, tm, used_c, used_t = True, case["cm"], case["tm"], {"edge-quote"}, set()
    if via_cfg and R.random() < 0.15 and "cm" not in case:
        tm, used_t = "", {"empty-tag-message"}   # documented: an empty tag message gives a lightweight tag
    edges = via_cfg and any(t != t.strip("'\" ") for t in (cm, tm))
    ini = via_cfg and R.random() < 0.5 and tm != "" and not edges and sch <= 2
    if edges:
        ctx.count("config_templates_with_edge_quotes_or_blanks")
    if ini:
        names = [n for n in names if not any(c in n for c in "=:#;%[]") and n == n.strip() and "  " not in n] or ["plain.txt"]
        ini = not any(t.startswith(("#", ";")) for t in (cm, tm))
    cfg_name = "setup.cfg" if ini else "bumpver.toml"
    mk = build_project_ini if ini else (lambda R_, n_, commit_msg_cfg=None, tag_msg_cfg=None:
                                        build_project(R_, n_, commit_msg_cfg=commit_msg_cfg, tag_msg_cfg=tag_msg_cfg))
    files = mk(R, names, commit_msg_cfg=cm if via_cfg else None, tag_msg_cfg=tm if via_cfg else None)
    if ini:
        ctx.count("templates_from_setup_cfg")
        if "%" in cm + tm:
            ctx.count("ini_templates_with_percent")
    results = {}
    benign_t = "t" if tm != "" else ""   # an empty tag message changes the command shape (lightweight tag) by design
    for variant, (c_t, t_t) in (("benign", ("m", benign_t)), ("hostile", (cm, tm))):
        d = harness.new_project(files if variant == "hostile" or not via_cfg else
                                mk(R, names, commit_msg_cfg="m", tag_msg_cfg=benign_t))
        fake = harness.FakeVCS(d, vcs)
        try:
            fake.set_out("status", "")
            args = ["update", "--patch", "--no-fetch"] + ([] if via_cfg else ["--commit-message", c_t, "--tag-message", t_t])
            spaced = None
            if vcs == "hg" and case["seed"] % 3 == 0:
                # the directory for temporary files has a blank in its path (TMPDIR of a user "John Doe"): hg gets its
                # commit message through a file there
                import tempfile
                spaced = d + ".tmp dir"
                os.makedirs(spaced, exist_ok=True)
                saved_tmp, tempfile.tempdir = tempfile.tempdir, spaced
                if variant == "hostile":
                    ctx.count("hg_runs_with_blank_in_tmpdir")
            try:
                res = harness.invoke(args, cwd=d, env=dict(fake.env, TMPDIR=spaced) if spaced else fake.env)
            finally:
                if spaced:
                    tempfile.tempdir = saved_tmp
                    harness.rm_dir(spaced)
            results[variant] = (res, fake.events(), args)
        finally:
            harness.rm_dir(d)
            fake.destroy()
    ctx.count(f"fake_{vcs}_runs")
    res, evs, args = results["hostile"]
    bres, bevs, _ = results["benign"]
    for c in used_c | used_t:
        ctx.count("class:" + c)
    ctx.counters["k12_evaluations"] = contracts.K12_EVALS[0]
    for c in sorted(used_c):
        ctx.nt.add(f"commit-message|{c}|{vcs}")
    for c in sorted(used_t):
        ctx.nt.add(f"tag-message|{c}|{vcs}")
    hostile_names = [n for n in names if n != "plain.txt"]
    for n in hostile_names:
        ctx.nt.add(f"path|{n}|{vcs}")
    ctx.evaluated(sample={"argv": args, "paths": names, "vcs": vcs})
    want_cm = expand(cm, OLD, NEW, OLD_PEP, NEW_PEP, cli=not via_cfg)
    want_tm = expand(tm, OLD, NEW, OLD_PEP, NEW_PEP, cli=not via_cfg)
    if via_cfg and tm == "":
        ctx.count("empty_tag_message_from_config")
    if via_cfg:
        ctx.count("templates_from_config")
        if "shorthand" in used_c | used_t:
            ctx.count("config_templates_with_OLD_NEW_words")
    mech = "value_split_after_formatting"
    for w in contracts.K12_WITNESSES:
        ctx.violation(mech, f"K12: {w[0]}: expected argv {w[1]!r}, spawned {w[2]!r}", case=case)
    del contracts.K12_WITNESSES[:]
    if res.crash or res.exit_code != 0:
        ctx.violation(mech if (res.crash and ("shlex" in res.crash or "No closing quotation" in res.crash or
                                             "No escaped character" in res.crash)) else "other:update_fails_on_hostile_value",
                      f"{args} paths={names}: exit {res.exit_code} {res.crash or res.errors()[-2:]}", case=case)
        return

    def calls(events, kind):
        return [e for e in events if harness.mutating_kind(e) == kind]

    # shape: same sequence of commands and argv lengths as the benign run
    shape = [(e["name"], e["argv"][0] if e["argv"] else "", len(e["argv"])) for e in evs]
    bshape = [(e["name"], e["argv"][0] if e["argv"] else "", len(e["argv"])) for e in bevs]
    if shape != bshape:
        ctx.violation(mech, f"argv shape differs from the run with benign values: {shape} vs {bshape} | {args}", case=case)
        return
    commits = calls(evs, "commit")
    if len(commits) != 1:
        ctx.violation("other:commit_calls", f"{len(commits)} commit calls", case=case)
        return
    a = commits[0]["argv"]

    def msg_class(tmpl, got, what):
        # known mechanism, verified per case: the observed message is the template with its edge quotes/blanks
        # stripped (config._parse_config strips every string setting for the INI syntax's sake, TOML values too)
        if via_cfg and tmpl != tmpl.strip("'\" ") and got == expand(tmpl.strip("'\" "), OLD, NEW, OLD_PEP, NEW_PEP, cli=False):
            return "config_template_edge_quotes_stripped"
        return f"other:{what}_message_not_verbatim"

    if vcs == "git":
        if "--message" not in a or a[a.index("--message") + 1] != want_cm or a.count(want_cm) != 1:
            got = a[a.index("--message") + 1] if "--message" in a else None
            ctx.violation(msg_class(cm, got, "commit"), f"commit argv {a!r}, expected message {want_cm!r}", case=case)
    else:
        if commits[0]["extra"] != want_cm.encode("utf-8"):
            ctx.violation(msg_class(cm, commits[0]["extra"].decode("utf-8", "replace"), "commit"),
                          f"hg log file {commits[0]['extra']!r}, expected {want_cm!r}", case=case)
        if commits[0]["env"].get("HGENCODING") != "utf-8":
            ctx.violation("other:hgencoding_missing", f"{commits[0]['env']}", case=case)
    tags = calls(evs, "tag")
    if len(tags) != 1:
        ctx.violation("other:tag_calls", f"{len(tags)} tag calls", case=case)
        return
    a = tags[0]["argv"]
    if want_tm == "":
        if "--message" in a:
            ctx.violation("other:tag_message_not_verbatim", f"{a!r}", case=case)
    elif "--message" not in a or a[a.index("--message") + 1] != want_tm:
        got = a[a.index("--message") + 1] if "--message" in a else None
        ctx.violation(msg_class(tm, got, "tag"), f"tag argv {a!r}, expected message {want_tm!r}", case=case)
    if a.count(NEW) != (1 if NEW not in want_tm else 1 + (a[a.index('--message') + 1] == NEW)) and NEW not in a:
        ctx.violation("other:tag_name_wrong", f"tag argv {a!r}, expected name {NEW!r}", case=case)
    name_pos = 2 if (vcs == "git" and "--annotate" in a) else 1
    if a[name_pos] != NEW:
        ctx.violation("other:tag_name_wrong", f"tag argv {a!r}: element {name_pos} should be {NEW!r}", case=case)
    adds = calls(evs, "add")
    got_paths = sorted(e["argv"][-1] for e in adds)
    ctx.count("hostile_paths_checked", len(hostile_names))
    if got_paths != sorted(names + [cfg_name]):
        ctx.violation("other:staged_paths_not_verbatim", f"add calls staged {got_paths}, configured {sorted(names + [cfg_name])}",
                      case=case)


def git(d, *a, check=True, env=None):
    e = dict(os.environ, GIT_CONFIG_GLOBAL="/dev/null", GIT_CONFIG_SYSTEM="/dev/null", GIT_AUTHOR_NAME="t",
             GIT_AUTHOR_EMAIL="t@e", GIT_COMMITTER_NAME="t", GIT_COMMITTER_EMAIL="t@e", HOME=d)
    if env:
        e.update(env)
    p = subprocess.run(["git", *a], cwd=d, env=e, capture_output=True, timeout=60)
    if check and p.returncode:
        raise harness.Skip("git-setup-failed:" + p.stderr.decode("utf-8", "replace")[:80])
    return p.stdout.decode("utf-8", "replace")


GIT_ENV = {"GIT_CONFIG_GLOBAL": "/dev/null", "GIT_CONFIG_SYSTEM": "/dev/null", "GIT_AUTHOR_NAME": "t",
           "GIT_AUTHOR_EMAIL": "t@e", "GIT_COMMITTER_NAME": "t", "GIT_COMMITTER_EMAIL": "t@e"}


def cleanup_stable(msg):
    if not msg or msg != msg.strip() or "\n\n\n" in msg:
        return False
    for ln in msg.split("\n"):
        if ln != ln.rstrip() or ln.startswith("#"):
            return False
    return not msg.startswith("-")


def run_real(ctx, case):
    R = random.Random(case["seed"])
    contracts.install_k12()
    sch = 0 if R.random() < 0.4 else R.randrange(1, len(SCHEMES))
    use_scheme(sch)
    ctx.count(f"real_git_version_scheme:{sch}")
    for _ in range(20):
        cm, used_c = gen_template(R)
        tm, used_t = gen_template(R)
        want_cm = expand(cm, OLD, NEW, OLD_PEP, NEW_PEP)
        want_tm = expand(tm, OLD, NEW, OLD_PEP, NEW_PEP)
        if cleanup_stable(want_cm) and cleanup_stable(want_tm):
            break
    else:
        raise harness.Skip("no-cleanup-stable-message")
    names = R.sample(PATH_NAMES, R.randint(1, 3))
    if any(n.startswith("-") for n in names):
        ctx.count("real_git_leading_dash_paths")
    files = build_project(R, names)
    # neighbours that a PATHSPEC reading of a configured name would also select (git: backslash escapes, ':' magic)
    decoys = {"back\\slash.txt": "backslash.txt", ":colon.txt": "colon.txt", ":(top)magic.txt": "magic.txt"}
    present = [decoys[n] for n in names if n in decoys]
    for dn in present:
        files[dn] = "unrelated\n"
    d = harness.new_project(files)
    remote = None
    try:
        git(d, "init", "-q", "-b", "main")
        git(d, "add", "-A")
        git(d, "commit", "-q", "-m", "init")
        args = ["update", "--patch", "--no-fetch", "--commit-message", cm, "--tag-message", tm]
        if present:
            for dn in present:
                with open(os.path.join(d, dn), "a") as f:
                    f.write("local work in progress\n")
            args.insert(1, "--allow-dirty")
            ctx.count("real_git_pathspec_neighbours")
        if R.random() < 0.35:
            # with --push: the message must not decide WHERE the commit is pushed. The branch has no upstream
            # (pushed without -u), and the message opens with text that looks like git's `[remote/branch]` column.
            remote = d + ".remote.git"
            git(d, "init", "-q", "--bare", remote)
            tracked_fork = R.random() < 0.35
            if tracked_fork:
                # the branch tracks a remote that is NOT called origin (pushed with -u): that is where the push goes
                git(d, "remote", "add", "fork", remote)
                git(d, "push", "-q", "-u", "fork", "main")
                ctx.count("real_git_push_to_tracked_remote_not_named_origin")
            else:
                git(d, "remote", "add", "origin", remote)
                git(d, "push", "-q", "origin", "main")
            if not tracked_fork and R.random() < 0.3:
                # the current branch tracks a LOCAL branch (upstream remote "."): the push still has to reach origin
                git(d, "checkout", "-q", "-b", "feature", "--track", "main")
                ctx.count("real_git_push_from_branch_tracking_a_local_branch")
            if R.random() < (0.6 if tracked_fork else 0.3):
                # a user setting that lays listings out in columns, with a second branch to lay out: the push still
                # has to happen, and to the same remote
                git(d, "branch", "dev")
                git(d, "config", "column.ui", "always")
                ctx.count("real_git_push_with_column_ui_always")
            if R.random() < 0.3:
                # a branch that is called like the version about to be released (a maintenance branch): the tag name
                # handed to `push` must still name the tag, and only the tag
                git(d, "branch", NEW)
                ctx.count("real_git_push_with_branch_named_like_the_new_tag")
            pre = R.choice(["[ci/skip] ", "[release/NEW] ", "[x/y] ", ""])
            cm = pre + cm
            want_cm = expand(cm, OLD, NEW, OLD_PEP, NEW_PEP)
            args = ["update", "--patch", "--no-fetch", "--push", "--commit-message", cm, "--tag-message", tm]
            if present:
                args.insert(1, "--allow-dirty")
            ctx.count("real_git_push_runs")
        env = dict(GIT_ENV, HOME=d)
        if case["seed"] % 7 == 2:
            # a user who has exported one of git's global pathspec switches: the configured paths are staged all the same
            env[R.choice(["GIT_ICASE_PATHSPECS", "GIT_GLOB_PATHSPECS", "GIT_NOGLOB_PATHSPECS"])] = "1"
            ctx.count("real_git_runs_with_a_global_pathspec_switch_exported")
        res = harness.invoke(args, cwd=d, env=env)
        ctx.count("real_git_runs")
        for c in used_c | used_t:
            ctx.count("class:" + c)
            ctx.nt.add(f"real-git|{c}")
        ctx.evaluated(sample={"argv": args, "paths": names, "vcs": "real git"})
        for w in contracts.K12_WITNESSES:
            ctx.violation("value_split_after_formatting", f"K12: {w[0]}: expected argv {w[1]!r}, spawned {w[2]!r}", case=case)
        del contracts.K12_WITNESSES[:]
        if res.exit_code != 0:
            crash = res.crash or ""
            pushes = [e for e in res.errors() if "'push'" in e]
            ctx.violation("value_split_after_formatting" if ("quotation" in crash or "escaped character" in crash)
                          else "commit_message_read_as_upstream_of_branch" if (remote and pushes and not any(
                              f"'{x}'" in pushes[0] for x in (remote, "origin", "fork")))
                          else "other:real_git_update_fails", f"{args} paths={names}: exit {res.exit_code} "
                          f"{crash[:200] or res.errors()[-2:]} {res.stdout[-200:]}", case=case)
            return
        body = git(d, "log", "-1", "--format=%B")
        if body.rstrip("\n") != want_cm:
            ctx.violation("other:commit_object_message_differs", f"commit message {body!r}, expected {want_cm!r}", case=case)
        tagobj = git(d, "cat-file", "tag", NEW, check=False)
        tmsg = tagobj.split("\n\n", 1)[1] if "\n\n" in tagobj else None
        if tmsg is None or tmsg.rstrip("\n") != want_tm:
            ctx.violation("other:tag_object_message_differs", f"tag object message {tmsg!r}, expected {want_tm!r}", case=case)
        if git(d, "tag", "--points-at", "HEAD").split() != [NEW]:
            ctx.violation("other:tag_name_wrong", f"tags at HEAD: {git(d, 'tag', '--points-at', 'HEAD')!r}", case=case)
        changed = sorted(x for x in git(d, "show", "--name-only", "--format=", "-z", "HEAD").split("\0") if x)
        if changed != sorted(names + ["bumpver.toml"]):
            ctx.violation("other:staged_paths_not_verbatim", f"commit contains {changed}, configured {sorted(names + ['bumpver.toml'])}",
                          case=case)
        if remote:
            rtags = git(remote, "tag", "--list").split()
            branch = git(d, "rev-parse", "--abbrev-ref", "HEAD").strip()
            rhead = git(remote, "rev-parse", branch, check=False).strip()
            if rtags != [NEW] or rhead != git(d, "rev-parse", "HEAD").strip():
                ctx.violation("other:push_did_not_reach_origin", f"{args}: tags on origin {rtags}, origin/main {rhead[:8]}",
                              case=case)
    finally:
        harness.rm_dir(d)
        if remote:
            harness.rm_dir(remote)


def run_case(ctx, case):
    if case["kind"] == "fake":
        return run_fake(ctx, case)
    return run_real(ctx, case)

"""C15 - {pep440_version} always denotes the same version as {version}.

Monitors: for every PEP 440-valid version text V of a grammar pattern P the text the real code writes for
`{pep440_version}` (format_version through the derived pattern) must (1) be a valid PEP 440 version equal to V
(packaging), (2) be accepted in full by the derived search pattern, (3) equal the `PEP440` value of
`bumpver test` up to normalisation, (4) carry no `v`, no leading zero in a dotted numeric component after the
first, and the short tag form followed by its number. File level: `{version}` next to `{pep440_version}` in
files rewritten by `bumpver update`.
"""
import random
import re

from packaging.version import InvalidVersion, Version

from bvmon import gen, harness, projects, ref, updates

SPEC = dict(
    level="exploration",
    rule=("library level: grammar-G patterns (prefix '' or 'v') x reachable states x all tags (NUM present/absent), "
          "kept when the version text is PEP 440-valid; CLI: `PEP440` line of `bumpver test`; file level: generated "
          "projects with {version} and {pep440_version} occurrences rewritten by `update`; non-trivial+distinct = "
          "distinct (pattern shape, tag, zero-padded part present?, level) tuples"),
    assumptions=["packaging decides validity/equality of PEP 440 versions; canonical spelling is NOT demanded "
                 "(1.0.a0 is acceptable) - only the statement's clauses are asserted"],
    required=["lib_checks", "cli_pep440_lines", "file_occurrences_checked", "tags:alpha", "tags:final", "tags:post",
              "tags:dev", "zero_padded_cases", "show_pep440_values_checked", "both_placeholder_updates", "grep_with_version_pattern",
              "build_value_zero", "tag_numbered_by_another_part"],
    anchors=[("v2patterns", "_convert_to_pep440"), ("version", "to_pep440"), ("v2patterns", "normalize_pattern")],
)

PINNED = [{"kind": "lib1", "p": "YYYY.MAJOR-MINOR", "state": {"year_y": 2021, "major": 98, "minor": 2}}]

NUMERIC = "YYYY|YY|0Y|GGGG|GG|0G|Q|MM|0M|DD|0D|JJJ|00J|WW|0W|UU|0U|VV|0V|MAJOR|MINOR|PATCH|BUILD|BLD|NUM|INC0|INC1"
# any separator that _convert_to_pep440 strips (everything outside [a-zA-Z0-9.!\[\]]: '-', '_', '+', ...) directly
# before a numeric part
DASH_NUM_RE = re.compile(r"[^a-zA-Z0-9.!\[\]\\]\[?(?:" + NUMERIC + ")")
PADDED = ("0Y", "0G", "0M", "0D", "00J", "0W", "0U", "0V", "BUILD")


class _Probe:
    """throw-away collector used to test whether a mechanism explains a failure"""

    def __init__(self):
        import collections
        self.counters = collections.Counter()
        self.n = 0

    def violation(self, *a, **kw):
        self.n += 1


def classify(p, what, mods=None, state=None):
    if DASH_NUM_RE.search(p):
        # the listed mechanism explains the failure iff the same state under the same pattern with the dash
        # replaced by a dot passes every clause
        if mods is None or state is None:
            return "dash_before_numeric_part"
        p2 = re.sub(r"[^a-zA-Z0-9.!\[\]\\](\[?(?:" + NUMERIC + "))", r".\1", p)
        try:
            v2 = ref.render(ref.parse_pattern(p2), state)
            probe = _Probe()
            check_one(probe, mods, p2, v2, None)
            if probe.n == 0:
                return "dash_before_numeric_part"
        except harness.Skip:
            return "dash_before_numeric_part"
    return "other:" + what


def cases(ctx):
    for _ in range(ctx.size(30000, 1000000)):
        yield {"kind": "lib", "seed": ctx.rng.getrandbits(48)}
    for _ in range(ctx.size(480, 12000)):
        yield {"kind": "show", "seed": ctx.rng.getrandbits(48)}
    for _ in range(ctx.size(800, 20000)):
        yield {"kind": "file", "seed": ctx.rng.getrandbits(48)}
    for _ in range(ctx.size(300, 6000)):
        yield {"kind": "both", "seed": ctx.rng.getrandbits(48)}
    for _ in range(ctx.size(1500, 40000)):
        yield {"kind": "lib2", "seed": ctx.rng.getrandbits(48)}


LONG_TAG = re.compile(r"alpha|beta|preview|final|pre|rev")
SHAPE = re.compile(r"^(\d+!)?\d+(\.\d+)*((\.|-|_)?(a|b|rc|post|dev)(\d+)?)*(\.?(post|dev)\d+)*$")


def clause4(x):
    """README normalisation rules on the written text"""
    if x.startswith("v"):
        return "has a v prefix"
    comps = re.split(r"\.", x)
    for c in comps[1:]:
        m = re.match(r"^(\d+)", c)
        if m and len(m.group(1)) > 1 and m.group(1).startswith("0"):
            return f"leading zero in dotted component {c!r}"
    if LONG_TAG.search(x):
        return "long tag form"
    m = re.search(r"(a|b|rc|post|dev)(\d*)$", x)
    if m and m.group(2) == "":
        return "tag without its number"
    return None


def check_one(ctx, mods, p, v_text, case, level="lib"):
    v2p, v2v, bvv = mods["v2patterns"], mods["v2version"], mods["version"]
    try:
        v = Version(v_text)
    except InvalidVersion:
        raise harness.Skip("version-not-pep440")
    try:
        vinfo = harness.call(v2v.parse_version_info, v_text, p)
        norm = v2p.normalize_pattern(p, "{pep440_version}")
        x = v2v.format_version(vinfo, norm)
    except Exception as ex:
        ctx.violation(classify(p, "render_raises", mods, (case or {}).get("state")),
                      f"{p!r} {v_text!r}: {type(ex).__name__}: {ex}", case=case)
        return None
    bad = None
    try:
        vx = Version(x)
        if vx != v:
            bad = ("not_equal", f"written {x!r} (= {vx}) for version {v_text!r} (= {v})")
    except InvalidVersion:
        bad = ("invalid", f"written {x!r} is not a PEP 440 version (version {v_text!r})")
    if bad is None:
        pat = v2p.compile_pattern(p, "{pep440_version}")
        m = pat.regexp.fullmatch(x)
        if m is None:
            bad = ("not_accepted_by_derived_pattern", f"{x!r} is not matched by derived pattern {norm!r}")
    if bad is None:
        shown = bvv.to_pep440(v_text)
        try:
            if Version(shown) != Version(x):
                bad = ("differs_from_PEP440_line", f"written {x!r} but PEP440 value is {shown!r}")
        except InvalidVersion:
            bad = ("PEP440_line_invalid", f"to_pep440({v_text!r}) = {shown!r}")
    if bad is None:
        why = clause4(x)
        if why:
            bad = ("normalisation_rule", f"written {x!r} for {v_text!r} under {p!r}: {why}")
    ctx.counters[f"{level}_checks"] += 1
    if bad:
        ctx.violation(classify(p, bad[0], mods, (case or {}).get("state")),
                      f"pattern {p!r} -> derived {norm!r}: {bad[1]}", case=case)
    return x


def run_show(ctx, case, R, mods, tdy):
    """`bumpver show` / `show --environ`: the PEP440 value printed next to the current version denotes that version,
    whether it comes from the config file or from a newer VCS tag (fake git)."""
    p = gen.gen_pattern(R, decorate=False, pep_bias=True)
    if " " in p:
        raise harness.Skip("space-in-pattern")
    ast = ref.parse_pattern(p)
    names = list(ref.parts_in(ast))
    texts = []
    for _ in range(2):
        _d, st0 = gen.gen_state(R, names)
        rs = gen.reachable(ast, st0, tdy)
        if rs is None or ref.n_full_parses(ast, rs[0]) != 1 or projects._week53(names, rs[1]):
            raise harness.Skip("unreachable-state")
        try:
            Version(rs[0])
        except InvalidVersion:
            raise harness.Skip("version-not-pep440")
        texts.append(rs[0])
    cfg_v, tag_v = sorted(texts, key=Version)
    if R.random() < 0.3:
        cfg_v, tag_v = tag_v, cfg_v
    cfg = (f"[bumpver]\ncurrent_version = {projects.toml_str(cfg_v)}\nversion_pattern = {projects.toml_str(p)}\n"
           f"tag_scope = \"{R.choice(['default', 'global', 'branch'])}\"\n\n[bumpver.file_patterns]\n"
           "\"bumpver.toml\" = ['current_version = \"{version}\"']\n")
    d = harness.new_project({"bumpver.toml": cfg})
    fake = harness.FakeVCS(d, "git")
    try:
        fake.set_out("tag-list", tag_v + "\nnot-a-version\n")
        fake.set_out("tag-merged", tag_v + "\n")
        for args, cur_key, pep_key in ((["show", "--no-fetch"], "Current Version: ", "PEP440         : "),
                                       (["show", "--no-fetch", "--environ"], "CURRENT_VERSION=", "PEP440_VERSION=")):
            res = harness.invoke(args, cwd=d, env=fake.env)
            if res.exit_code != 0:
                ctx.count("show_failed")
                continue
            cur, pep = res.stdout_value(cur_key), res.stdout_value(pep_key)
            ctx.counters["show_pep440_values_checked"] += 1
            ok = False
            try:
                ok = pep is not None and Version(pep) == Version(cur)
            except InvalidVersion:
                ok = False
            if not ok and not DASH_NUM_RE.search(p):
                ctx.violation("other:show_pep440_value_differs", f"{args}: current version {cur!r} but PEP440 value {pep!r} "
                              f"(config {cfg_v!r}, tag {tag_v!r}, pattern {p!r})", case=case)
        ctx.evaluated((ref.shape(ast), "show", Version(tag_v) > Version(cfg_v)),
                      sample={"pattern": p, "config": cfg_v, "tag": tag_v})
    finally:
        harness.rm_dir(d)
        fake.destroy()


BOTH_VPS = ["vMAJOR.MINOR.PATCH[-TAGNUM]", "MAJOR.MINOR.PATCH[PYTAGNUM]", "vYYYY.BUILD[-TAG]", "YYYY.0M.INC0", "vMAJOR.MINOR[.PATCH[-TAG]]",
            "MAJOR.MINOR.PATCH", "YYYY.MM.DD[.TAGNUM]"]
BOTH_LINES = ["Latest release: {version} (pip install pkg=={pep440_version}) .", "pkg=={pep440_version}  # git tag {version}",
              "{version} -> {pep440_version};"]


def run_both(ctx, case, R, mods, tdy):
    """ONE file pattern that carries both placeholders: the line shows the version and, at the {pep440_version}
    position, an equal PEP 440 version - before and after every update."""
    v2v = mods["v2version"]
    vp = R.choice(BOTH_VPS)
    ast = ref.parse_pattern(vp)
    names = list(ref.parts_in(ast))
    _d, st0 = gen.gen_state(R, names)
    rs = gen.reachable(ast, st0, tdy)
    if rs is None or ref.n_full_parses(ast, rs[0]) != 1 or projects._week53(names, rs[1]):
        raise harness.Skip("unusable-start")
    cur, st = rs
    try:
        Version(cur)
    except InvalidVersion:
        raise harness.Skip("start-not-pep440")
    raw = R.choice(BOTH_LINES)
    norm = projects.normalize(mods, vp, raw, False)
    old_line = v2v.format_version(v2v.parse_version_info(cur, vp), norm)   # setup: what bumpver itself writes
    cfg = (f'[bumpver]\ncurrent_version = "{cur}"\nversion_pattern = "{vp}"\n\n[bumpver.file_patterns]\n'
           f'"bumpver.toml" = [\'current_version = "{{version}}"\']\n"README.md" = [{projects.toml_str(raw)}]\n')
    d = harness.new_project({"bumpver.toml": cfg, "README.md": f"# pkg\n\n{old_line}\n\nmore text\n"})
    try:
        for step in range(2):
            fl, date, exp, why = updates.plan_update(R, vp, cur, st, tdy)
            if exp is None:
                raise harness.Skip("no-successful-update-planned")
            res = harness.invoke(updates.update_args(fl, date), cwd=d)
            a = res.record_value("New Version: ")
            if res.exit_code != 0:
                if a is not None or res.crash:
                    ctx.violation("other:update_fails_with_both_placeholders_in_one_pattern", f"pattern {raw!r} (vp {vp!r}, "
                                  f"current {cur!r}): exit {res.exit_code} {res.crash or res.errors()[-2:]}", case=case)
                return
            ctx.counters["both_placeholder_updates"] += 1
            ctx.evaluated((vp, raw, "both", step))
            line = harness.snapshot(d)["README.md"].decode().split("\n")[2]
            pre, mid_, post = raw.partition("{version}")
            want_shape = re.escape(raw).replace(re.escape("{version}"), "(?P<v>.+?)").replace(re.escape("{pep440_version}"), "(?P<p>.+?)")
            m = re.fullmatch(want_shape, line)
            try:
                ok = m is not None and m.group("v") == a and Version(m.group("p")) == Version(a) and clause4(m.group("p")) is None
            except InvalidVersion:
                ok = False
            if not ok:
                ctx.violation(classify(vp, "pep440-occurrence-not-equal"), f"pattern {raw!r} (vp {vp!r}): after the update to "
                              f"{a!r} the line reads {line!r}", case=case)
                return
            try:
                Version(a)
            except InvalidVersion:
                return
            cur, st = a, updates.new_state_from_text(vp, a, tdy)
    finally:
        harness.rm_dir(d)


# lib2: shapes outside gen.gen_pattern - the tag numbered by a part other than NUM (its own auto-incrementing
# number), and a BUILD value of zero
OWN_NUMBER_CORES = ["MAJOR.MINOR.PATCH", "vMAJOR.MINOR.PATCH", "YYYY.0M", "vYYYY.MM.DD", "YYYY.0M.0D", "MAJOR.MINOR", "vYYYY.MM.MINOR"]
OWN_NUMBER_TAILS = ["[-TAG[INC1]]", "[-TAGINC1]", "[PYTAGINC0]", "[.TAGINC0]", "[.TAGBUILD]", "[-TAG[INC0]]", "[PYTAG[INC1]]",
                    "[-TAGBLD]", "[.PYTAGINC1]", "[-TAG[.INC0]]", "[-TAG.INC1]", "[-TAG.BUILD]", "[.TAG[.INC1]]"]
ZERO_BUILD_PATTERNS = ["MAJOR.MINOR.BUILD", "vYYYY0M.BUILD[-TAG]", "YYYY.BUILD[-TAGNUM]", "vYYYY.0M.BUILD", "MAJOR.BUILD[PYTAGNUM]",
                       "YYYY.MM.BLD", "vMAJOR.MINOR.PATCH.BUILD"]


def run_lib2(ctx, case, R, mods, tdy):
    zero_build = R.random() < 0.35
    p = R.choice(ZERO_BUILD_PATTERNS) if zero_build else R.choice(OWN_NUMBER_CORES) + R.choice(OWN_NUMBER_TAILS)
    ast = ref.parse_pattern(p)
    names = list(ref.parts_in(ast))
    _d, st0 = gen.gen_state(R, names)
    if zero_build:
        st0["bid"] = R.choice(["0", "0000", "00"])
    rs = gen.reachable(ast, st0, tdy)
    if rs is None or ref.n_full_parses(ast, rs[0]) != 1 or projects._week53(names, rs[1]):
        raise harness.Skip("unreachable-state")
    v_text, st = rs
    if ref.render(ast, st) != v_text:
        # not a stable version text of this pattern (an always-written INC1 directly after the digits of the release:
        # `{version}` itself re-renders differently) - outside this property
        raise harness.Skip("version-text-not-a-fixpoint")
    check_one(ctx, mods, p, v_text, {"kind": "lib1", "p": p, "state": st}, level="lib2")
    ctx.counters["build_value_zero" if zero_build else "tag_numbered_by_another_part"] += 1
    ctx.evaluated((p, st["tag"], "lib2"), sample={"pattern": p, "version": v_text})


def run_case(ctx, case):
    mods = updates.bvmods()
    tdy = updates.today()
    if case["kind"] == "lib1":
        ast = ref.parse_pattern(case["p"])
        st = ref.default_state()
        st.update(ref.cal_from_date(tdy))
        st.update(case["state"])
        check_one(ctx, mods, case["p"], ref.render(ast, st), case)
        ctx.evaluated(("pinned", case["p"]))
        return
    R = random.Random(case["seed"])
    if case["kind"] == "show":
        return run_show(ctx, case, R, mods, tdy)
    if case["kind"] == "both":
        return run_both(ctx, case, R, mods, tdy)
    if case["kind"] == "lib2":
        return run_lib2(ctx, case, R, mods, tdy)
    if case["kind"] == "lib":
        p = gen.gen_pattern(R, decorate=False, pep_bias=True)
        ast = ref.parse_pattern(p)
        names = list(ref.parts_in(ast))
        _d, st0 = gen.gen_state(R, names)
        rs = gen.reachable(ast, st0, tdy)
        if rs is None or ref.n_full_parses(ast, rs[0]) != 1:
            raise harness.Skip("unreachable-state")
        v_text, st = rs
        if projects._week53(names, st):
            raise harness.Skip("week53")
        x = check_one(ctx, mods, p, v_text, {"kind": "lib1", "p": p, "state": st})
        padded = any(n in names for n in PADDED)
        ctx.counters["tags:" + st["tag"]] += 1
        if padded:
            ctx.counters["zero_padded_cases"] += 1
        ctx.evaluated((ref.shape(ast), st["tag"], padded, "lib"), sample={"pattern": p, "version": v_text, "pep440_text": x})
        if R.random() < 0.1:
            # CLI: the PEP440 line of `bumpver test` for a bumped version
            fl, date, exp, why = updates.plan_update(R, p, v_text, st, tdy, tries=4)
            if exp is not None:
                res = harness.invoke(["test", v_text, p] + gen.flags_to_args(fl, date))
                a = res.stdout_value("New Version: ")
                if res.exit_code == 0 and a:
                    line = res.stdout_value("PEP440     : ") or a
                    ctx.counters["cli_pep440_lines"] += 1
                    try:
                        Version(a)
                        valid = True
                    except InvalidVersion:
                        valid = False
                    if valid:
                        x2 = check_one(ctx, mods, p, a, {"kind": "lib1", "p": p,
                                                         "state": updates.new_state_from_text(p, a, tdy)}, level="cli")
                        try:
                            if x2 is not None and Version(line) != Version(x2) and not DASH_NUM_RE.search(p):
                                ctx.violation("other:cli_PEP440_line_differs", f"test prints PEP440 {line!r}, files get {x2!r}")
                        except InvalidVersion:
                            pass
        return
    # file level
    proj, why = projects.gen_project(R, mods, tdy, eol_choices=("\n",), n_files=R.randint(1, 2), max_patterns=3,
                                     allow_partial=False, globs=False)
    if proj is None:
        raise harness.Skip(why)
    if not any(pl.kind == "pep440" for pl in proj.plants):
        raise harness.Skip("no-pep440-occurrence")
    fl, date, exp, why = updates.plan_update(R, proj.vp, proj.cur_text, proj.cur_state, tdy)
    if exp is None:
        raise harness.Skip("no-successful-update-planned")
    d = harness.new_project(proj.encoded())
    try:
        res = harness.invoke(updates.update_args(fl, date), cwd=d)
        if res.exit_code != 0:
            ctx.count("file_update_refused")
            return
        a = res.record_value("New Version: ")
        st2 = updates.new_state_from_text(proj.vp, a, tdy)
        try:
            Version(a)
        except InvalidVersion:
            raise harness.Skip("announced-not-pep440")
        two_digit = [n for n in ref.parts_in(ref.parse_pattern(proj.vp)) if n in ("YY", "0Y", "GG", "0G")]
        if two_digit and any((st2.get(k) or 1) % 100 == 0 for k in ("year_y", "year_g")):
            # the update date left the domain of two-digit year parts (2001-2099): year `00` (see DESIGN 10.6)
            raise harness.Skip("two-digit-year-wraps")
        probs = projects.check_after(proj, harness.snapshot(d), st2, a)
        n = sum(1 for pl in proj.plants if pl.kind == "pep440")
        ctx.counters["file_occurrences_checked"] += n
        ctx.evaluated((ref.shape(ref.parse_pattern(proj.vp)), st2["tag"], "file"),
                      sample={"vp": proj.vp, "old": proj.cur_text, "new": a})
        for pr in probs:
            if pr[0].startswith("pep440-occurrence"):
                ctx.violation(classify(proj.vp, pr[0]), f"{pr[1]} (vp={proj.vp!r})", observed=proj.describe())
        if not probs:
            # "is accepted by the derived search pattern", observed through the CLI: `bumpver grep --version-pattern`
            # with the configured pattern finds what `update` has just written
            after = harness.snapshot(d)
            for fn, pats in proj.file_patterns.items():
                if fn == proj.cfg_name:
                    continue
                for raw in pats:
                    if "{pep440_version}" not in raw or projects.is_end_anchored(raw) or raw.startswith("-"):
                        continue
                    g = harness.invoke(["grep", "--version-pattern", proj.vp, "--", raw, fn], cwd=d)
                    ctx.counters["grep_with_version_pattern"] += 1
                    if g.crash or g.exit_code != 0:
                        ctx.violation(classify(proj.vp, "not_accepted_by_derived_pattern"),
                                      f"bumpver grep --version-pattern {proj.vp!r} {raw!r} {fn}: exit {g.exit_code} "
                                      f"{(g.crash or '')[-200:]} after update wrote {a!r}", observed=proj.describe())
    finally:
        harness.rm_dir(d)

"""C03 - after an update no configured occurrence is left stale.

Boundary monitor: bytes of every project file after a successful `bumpver update` are compared with an
expectation constructed independently (old bytes with each planted span replaced by R1's rendering of the
announced version through that occurrence's pattern); `bumpver show` must then report the announced version.
"""
import random
import re

from bvmon import harness, projects, updates

SPEC = dict(
    level="exploration",
    rule=("cases = generated projects (1..5 files x 1..4 search patterns: {version}, {pep440_version}, decorated "
          "and partial patterns; occurrences on own or shared lines; LF/CRLF/CR/mixed; glob and repeated file "
          "entries; TOML and setup.cfg) x one update predicted to succeed; layouts are accepted only when R1 "
          "proves them unambiguous; non-trivial+distinct = distinct (n files, patterns-per-file multiset, "
          "shared-line?, EOL set, pattern kinds, config format) tuples of successful updates"),
    assumptions=[
        "R1 (bvmon/ref.py) renders the expected text; {pep440_version} occurrences are checked semantically "
        "(packaging: equal to the announced version) because C15 does not demand one spelling",
        "initial {pep440_version} text is what bumpver itself renders for the current version (setup only)",
        "one case in eight is a legacy {..} layout (decorated {version} patterns, own and shared lines, LF/CRLF/CR)",
    ],
    required=["update_ok", "show_ok", "updates_with_a_section_quoted_inside_a_value", "updates_of_files_with_bom_and_start_anchored_pattern", "updates_with_a_literal_digit_before_a_part", "updates_with_config_file_listed_under_another_spelling", "updates_where_a_pattern_also_matches_inside_another_occurrence", "updates_with_listed_config_file_lacking_the_own_line_pattern", "set_version_in_noncanonical_spelling", "updates_with_repeated_pattern_in_mixed_eol_file", "aliased_path_entry_updates", "updates_with_end_anchored_patterns", "shared_line_updates", "updates_with_a_pattern_on_several_lines",
              "legacy_updates_ok", "legacy_shared_line_updates"],
    anchors=[("parse", "iter_matches"), ("v2rewrite", "rewrite_lines"), ("v2patterns", "normalize_pattern"),
             ("config", "_parse_raw_config")],
)

EOLS = ("\n", "\n", "\r\n", "\r", "mixed")


# one occurrence per pattern on the line, well apart - but the regex of the later-listed pattern also matches INSIDE the
# occurrence of the earlier one (`1.2.3` inside `v1.2.3`): (version pattern, current, pep440 form, update args, new, new pep440)
INNER = [
    ("vMAJOR.MINOR.PATCH", "v1.2.3", "1.2.3", ["--patch"], "v1.2.4", "1.2.4"),
    ("vYYYY.BUILD[-TAG]", "v2024.1001-beta", "2024.1001b0", ["--date", "2024-06-01"], "v2024.1002-beta", "2024.1002b0"),
    ("vMAJOR.MINOR.PATCH[-TAGNUM]", "v1.9.0-rc1", "1.9.0rc1", ["--tag-num"], "v1.9.0-rc2", "1.9.0rc2"),
    ("vYYYY.0M.INC0", "v2024.05.3", "2024.5.3", ["--date", "2024-05-30"], "v2024.05.4", "2024.5.4"),
]
INNER_LINES = ["Release {v} (on PyPI as {p})", "full = \"{v}\"; pep = \"{p}\"", "{v} -> pip install pkg=={p} # latest"]


def cases(ctx):
    n = ctx.size(4000, 100000)
    for i in range(n):
        yield {"pseed": ctx.rng.getrandbits(48), "legacy": i % 8 == 7}
    k = 0
    for legacy in (False, True):
        for eol in ("\n", "\r\n"):
            for dollar in (False, True):
                if ctx.mine(k):
                    yield {"kind": "bom", "legacy": legacy, "eol": eol, "dollar": dollar}
                k += 1
    for qi in range(4):
        if ctx.mine(k):
            yield {"kind": "quoted", "i": qi}
        k += 1
    for gi in range(len(GLUED)):
        for eol in ("\n", "\r\n"):
            if ctx.mine(k):
                yield {"kind": "glued", "i": gi, "eol": eol}
            k += 1
    for ii in range(len(INNER)):
        for li in range(len(INNER_LINES)):
            for eol in ("\n", "\r\n"):
                for fmt in ("toml", "cfg"):
                    for third in (False, True):
                        if ctx.mine(k):
                            yield {"kind": "inner-match", "i": ii, "line": li, "eol": eol, "fmt": fmt, "third": third}
                        k += 1


# partial patterns in which a literal digit stands directly before a part name (`20YY`: the century written out, a
# copyright line): (version pattern, current, update args, new, file pattern, line before, line after)
GLUED = [
    ("YYYY.BUILD", "2023.1001", ["--date", "2024-03-01"], "2024.1002", "copyright 2010-20YY acme", "copyright 2010-2023 acme",
     "copyright 2010-2024 acme"),
    ("MAJOR.MINOR.PATCH", "1.2.3", ["--major"], "2.0.0", "api-rev0MAJOR", "api-rev01", "api-rev02"),
    ("MAJOR.MINOR.PATCH", "1.2.3", ["--minor"], "1.3.0", "schema 1.0MINOR;", "schema 1.02;", "schema 1.03;"),
    ("YYYY.0M.INC0", "2021.05.3", ["--date", "2022-06-01"], "2022.06.0", "date: 20YY-0M", "date: 2021-05", "date: 2022-06"),
    ("vYYYY.MM.DD", "v2021.5.9", ["--date", "2022-06-07"], "v2022.6.7", "day 0DD of 0MM", "day 09 of 05", "day 07 of 06"),
]


QUOTED_TOML = """[project]
name = "demo"
version = "1.0.0"
description = \"\"\"
Example configuration for users of this plugin:

[bumpver]
current_version = "2021.1001"
version_pattern = "YYYY.BUILD"
\"\"\"

[tool.bumpver]
current_version = "1.0.0"
version_pattern = "MAJOR.MINOR.PATCH"

[tool.bumpver.file_patterns]
"pyproject.toml" = ['^version = "{version}"']
"README.md" = ["Version {version}"]
"""
QUOTED_CFG = """[metadata]
name = demo
long_description =
    Put this into your setup.cfg:
    [bumpver]
    current_version = 0.1.0
    version_pattern = MAJOR.MINOR.PATCH

[bumpver]
current_version = 1.0.0
version_pattern = MAJOR.MINOR.PATCH

[bumpver:file_patterns]
README.md =
    Version {version}
"""
SELF_QUOTING = """[bumpver]
version_pattern = "MAJOR.MINOR.PATCH"
tag_message = \"\"\"
release {new_version}
current_version: was 0.9.0 when this template was written
\"\"\"
current_version = "1.0.0"

[bumpver.file_patterns]
"README.md" = ["Version {version}"]
"""


COMMENT_REPEATS = """[bumpver]
current_version = "1.0.0"  # 1.0.0 was released on 2026-09-30
version_pattern = "MAJOR.MINOR.PATCH"

[bumpver.file_patterns]
"README.md" = ["Version {version}"]
"""


def run_quoted(ctx, case):
    """a multi-line value of the config file QUOTES something that looks like a bumpver section / a current_version key:
    the line bumpver itself reads current_version from is the one that has to show the announced version"""
    name, text, key_line = [("pyproject.toml", QUOTED_TOML, 'current_version = "{v}"'), ("setup.cfg", QUOTED_CFG, "current_version = {v}"),
                            ("bumpver.toml", SELF_QUOTING, 'current_version = "{v}"'),
                            (".bumpver.toml", COMMENT_REPEATS, 'current_version = "{v}"  # 1.0.0 was released on 2026-09-30')][case["i"]]
    d = harness.new_project({name: text.encode(), "README.md": b"# demo\n\nVersion 1.0.0\n"})
    try:
        before = harness.snapshot(d)
        res = harness.invoke(["update", "--no-fetch", "--patch"], cwd=d)
        after = harness.snapshot(d)
        ctx.count("updates_with_a_section_quoted_inside_a_value")
        ctx.evaluated(("quoted-section", name), sample={"config": name, "exit": res.exit_code})
        if res.exit_code != 0:
            if after != before:
                ctx.violation("other:failed_update_changed_files", f"{name}: exit {res.exit_code}, changed "
                              f"{harness.diff_snapshots(before, after)}", case=case)
            return      # refusing such a file loudly is fine
        lines = after[name].decode().splitlines()
        if key_line.format(v="1.0.1") not in lines or key_line.format(v="1.0.0") in lines:
            ctx.violation("other:config_current_version_differs_from_announced_version", f"{name}: update announced "
                          f"{res.record_value('New Version: ')!r} and exited 0, the key line still reads "
                          f"{[ln for ln in lines if ln.startswith('current_version')]}", case=case)
            return
        s2 = harness.invoke(["show", "--no-fetch"], cwd=d)
        if s2.exit_code != 0 or s2.stdout_value("Current Version: ") != "1.0.1":
            ctx.violation("other:show_disagrees", f"{name}: show after the update: exit {s2.exit_code} {s2.stdout!r}", case=case)
    finally:
        harness.rm_dir(d)


def run_bom(ctx, case):
    """a file that starts with a byte order mark (the usual state of C# sources) and a pattern anchored with `^`: the first
    line is a line like any other"""
    legacy = case["legacy"]
    eol = case["eol"]
    vp, cur, uargs, new = ("{semver}", "1.2.3", ["--patch"], "1.2.4") if legacy else ("MAJOR.MINOR.PATCH", "1.2.3", ["--patch"], "1.2.4")
    pat = "^// version {version}" + ("$" if case["dollar"] else "")
    lines = ["\ufeff// version " + cur, "using System;", "// version " + cur, "end"]
    want = eol.join(ln.replace(cur, new) for ln in lines)
    cfg = (f'[bumpver]\ncurrent_version = "{cur}"\nversion_pattern = "{vp}"\n\n[bumpver.file_patterns]\n'
           '"bumpver.toml" = [\'current_version = "{version}"\']\n"A.cs" = [' + projects.toml_str(pat) + "]\n")
    d = harness.new_project({"bumpver.toml": cfg.encode(), "A.cs": eol.join(lines).encode("utf-8")})
    try:
        res = harness.invoke(["update", "--no-fetch"] + uargs, cwd=d)
        ctx.count("updates_of_files_with_bom_and_start_anchored_pattern")
        ctx.evaluated(("bom-anchored", legacy, eol, case["dollar"]), sample={"pattern": pat, "argv": res.args})
        if res.exit_code != 0:
            ctx.violation("other:bom_anchored_update_failed", f"pattern {pat!r}: exit {res.exit_code} {res.errors()[-2:]} {res.crash or ''}",
                          case=case)
            return
        got = harness.snapshot(d)["A.cs"].decode("utf-8")
        if got != want:
            ctx.violation("other:stale-or-wrong-occurrence", f"pattern {pat!r} on a file with a byte order mark: after the update "
                          f"the file reads {got!r}, expected {want!r}", case=case)
    finally:
        harness.rm_dir(d)


def run_glued(ctx, case):
    vp, cur, uargs, new, pat, before, after_line = GLUED[case["i"]]
    eol = case["eol"]
    lines = ["# notes", before, "", f"version {cur}", "end"]
    want = eol.join(["# notes", after_line, "", f"version {new}", "end"])
    cfg = (f'[bumpver]\ncurrent_version = "{cur}"\nversion_pattern = "{vp}"\n\n[bumpver.file_patterns]\n'
           '"bumpver.toml" = [\'current_version = "{version}"\']\n"NOTES.txt" = ["version {version}", '
           + projects.toml_str(pat) + "]\n")
    d = harness.new_project({"bumpver.toml": cfg.encode(), "NOTES.txt": eol.join(lines).encode()})
    try:
        res = harness.invoke(["update", "--no-fetch"] + uargs, cwd=d)
        ctx.count("updates_with_a_literal_digit_before_a_part")
        ctx.evaluated(("glued", vp, pat, eol), sample={"pattern": pat, "line": before, "argv": res.args})
        a = res.record_value("New Version: ")
        if res.exit_code != 0 or a != new:
            ctx.violation("other:glued_literal_update_failed", f"pattern {pat!r} (vp {vp!r}): exit {res.exit_code}, announced {a!r} "
                          f"(expected {new!r}) {res.errors()[-2:]} {res.crash or ''}", case=case)
            return
        got = harness.snapshot(d)["NOTES.txt"].decode()
        if got != want:
            ctx.violation("other:stale-or-wrong-occurrence", f"pattern {pat!r} (vp {vp!r}): after the update to {new!r} the file "
                          f"reads {got!r}, expected {want!r}", case=case)
    finally:
        harness.rm_dir(d)


def run_inner(ctx, case):
    vp, cur, pep, uargs, new, new_pep = INNER[case["i"]]
    eol = case["eol"]
    tmpl = INNER_LINES[case["line"]]
    lines = ["# notes", tmpl.format(v=cur, p=pep), "", f"pip install pkg=={pep}", f"tag {cur}", "end"]
    want = eol.join(ln.replace(cur, new).replace(pep, new_pep) for ln in lines)
    # optionally a third pattern, listed FIRST, whose only occurrence is further down (the `tag ...` line): the spans
    # collected so far are then not in line order
    pats = (["tag {version}"] if case.get("third") else []) + ["{version}", "{pep440_version}"]
    if case["fmt"] == "toml":
        cfg = (f'[bumpver]\ncurrent_version = "{cur}"\nversion_pattern = "{vp}"\n\n[bumpver.file_patterns]\n'
               '"bumpver.toml" = [\'current_version = "{version}"\']\n"README.md" = ['
               + ", ".join(projects.toml_str(x) for x in pats) + "]\n")
        cfg_name = "bumpver.toml"
    else:
        cfg = (f"[bumpver]\ncurrent_version = {cur}\nversion_pattern = {vp}\n\n[bumpver:file_patterns]\n"
               "setup.cfg =\n    current_version = {version}\nREADME.md =\n" + "".join(f"    {x}\n" for x in pats))
        cfg_name = "setup.cfg"
    d = harness.new_project({cfg_name: cfg.encode(), "README.md": eol.join(lines).encode()})
    try:
        res = harness.invoke(["update", "--no-fetch"] + uargs, cwd=d)
        ctx.count("updates_where_a_pattern_also_matches_inside_another_occurrence")
        ctx.evaluated(("inner-match", vp, case["line"], eol, case["fmt"], bool(case.get("third"))), sample={"line": lines[1], "patterns": pats, "argv": res.args})
        a = res.record_value("New Version: ")
        if res.exit_code != 0 or a != new:
            ctx.violation("other:inner_match_update_failed", f"{vp!r} {lines[1]!r}: exit {res.exit_code}, announced {a!r} (expected "
                          f"{new!r}) {res.errors()[-2:]} {res.crash or ''}", case=case)
            return
        got = harness.snapshot(d)["README.md"].decode()
        if got != want:
            ctx.violation("other:stale-or-wrong-occurrence", f"patterns {pats} (vp {vp!r}): after the "
                          f"update to {new!r} the file reads {got!r}, expected {want!r}", case=case)
    finally:
        harness.rm_dir(d)


def run_legacy(ctx, case, R, mods):
    """legacy {..} layouts: every occurrence must show the announced version, byte-exact"""
    proj, _why = projects.gen_legacy_project(R, mods, eol_choices=("\n", "\r\n", "\r"))
    args = ["update", "--no-fetch", "--date", "2100-01-01"] + (["--patch"] if ("semver" in proj.vp or "MAJOR" in proj.vp) else [])
    d = harness.new_project(proj.encoded())
    try:
        res = harness.invoke(args, cwd=d)
        ctx.evaluated(("legacy", proj.vp, proj.meta["shared_lines"] > 0, tuple(proj.meta["eols"])),
                      sample={"vp": proj.vp, "old": proj.cur_text, "argv": args})
        if res.exit_code != 0:
            if res.crash and res.crash.startswith("OverflowError"):
                return
            ctx.violation("other:legacy_update_failed", f"{args} on {proj.vp!r} {proj.cur_text!r}: {res.errors()[-2:]} "
                          f"{res.crash or ''}", observed=proj.describe())
            return
        a = res.record_value("New Version: ")
        ctx.count("legacy_updates_ok")
        if proj.meta["shared_lines"]:
            ctx.count("legacy_shared_line_updates")
        want = projects.expected_files_legacy(proj, a)
        after = harness.snapshot(d)
        for fn, t in want.items():
            if after.get(fn) != t.encode("utf-8"):
                ctx.violation("other:legacy_stale_or_wrong_occurrence", f"{fn}: expected {t[:200]!r}, got "
                              f"{after.get(fn, b'')[:200]!r} (vp={proj.vp!r} old={proj.cur_text!r} new={a!r})",
                              observed=proj.describe())
                break
    finally:
        harness.rm_dir(d)


def noncanonical_numeric(R, vp, text):
    """`text` with a leading zero in front of one MAJOR/MINOR/PATCH/INC0 number (their recogniser is [0-9]+), or None"""
    from bvmon import ref
    ast = ref.parse_pattern(vp)
    raw = ref.parse(ast, text)
    if not raw:
        return None
    cands = [t for n, t in raw if n in ("MAJOR", "MINOR", "PATCH", "INC0")]
    R.shuffle(cands)
    for t in cands:
        hits = [m for m in re.finditer(r"(?<![0-9])" + re.escape(t) + r"(?![0-9])", text)]
        if len(hits) != 1:
            continue
        new = text[:hits[0].start()] + "0" + text[hits[0].start():]
        raw2 = ref.parse(ast, new)
        if raw2 and ref.n_full_parses(ast, new) == 1 and [(n, x.lstrip("0") or "0") for n, x in raw2] == \
                [(n, x.lstrip("0") or "0") if n in ("MAJOR", "MINOR", "PATCH", "INC0") else (n, x) for n, x in raw]:
            return new
    return None


def run_case(ctx, case):
    if case.get("kind") == "glued":
        return run_glued(ctx, case)
    if case.get("kind") == "bom":
        return run_bom(ctx, case)
    if case.get("kind") == "quoted":
        return run_quoted(ctx, case)
    if case.get("kind") == "inner-match":
        return run_inner(ctx, case)
    R = random.Random(case["pseed"])
    mods = updates.bvmods()
    tdy = updates.today()
    if case.get("legacy"):
        return run_legacy(ctx, case, R, mods)
    proj, why = projects.gen_project(R, mods, tdy, eol_choices=EOLS, filler="plain", repeat_in_mixed=True)
    if proj is None:
        raise harness.Skip(why)
    fl, date, exp, why = updates.plan_update(R, proj.vp, proj.cur_text, proj.cur_state, tdy)
    if exp is None and why != "gate-unknown":
        raise harness.Skip("no-successful-update-planned:" + why)
    args = updates.update_args(fl, date)
    if exp is None:
        # old and new version are both outside PEP 440 (decorated patterns): whether the version gate lets the bump
        # pass is not modelled, but IF the update succeeds its occurrences are checked like any other
        ctx.count("updates_of_non_pep440_versions_attempted")
    elif R.random() < 0.12:
        # the same target given as --set-version in a spelling the pattern accepts but would not render itself
        # (a leading zero in a MAJOR/MINOR/PATCH/INC0 number): what is announced is what has to be written
        setv = noncanonical_numeric(R, proj.vp, exp)
        if setv:
            args = ["update", "--no-fetch", "--set-version", setv]
            ctx.count("set_version_in_noncanonical_spelling")
    d = harness.new_project(proj.encoded())
    try:
        res = harness.invoke(args, cwd=d)
        after = harness.snapshot(d)
        desc = {"project": proj.describe(), "argv": res.args}
        if res.exit_code != 0:
            ctx.evaluated()
            if res.record_value("New Version: ") is None and res.crash is None:
                # refused before the rewrite phase: bump semantics are C05's subject, not a stale occurrence
                ctx.count("refused_before_rewrite(left to C05)")
                return
            ctx.violation("other:update_failed_on_proven_layout",
                          f"update exits {res.exit_code} in the rewrite phase on an unambiguous layout; model expected "
                          f"{exp!r}; log={res.errors()[-3:]} crash={res.crash}", observed=dict(desc, res=res.brief()))
            return
        a = res.record_value("New Version: ")
        ctx.count("update_ok")
        new_state = updates.new_state_from_text(proj.vp, a, tdy) if a else None
        if new_state is None:
            ctx.violation("other:announced_version_unreadable", f"announced {a!r} for {proj.vp!r}", observed=desc)
            return
        problems = projects.check_after(proj, after, new_state, a)
        cfg_line = [ln for ln in after[proj.cfg_name].decode("utf-8").splitlines() if ln.startswith("current_version")]
        if not cfg_line or a not in cfg_line[0]:
            ctx.violation("other:config_current_version_differs_from_announced_version",
                          f"{res.args}: announced {a!r}, config line {cfg_line[:1]}", observed=desc)
        m = proj.meta
        ntk = (m["n_files"], tuple(sorted(len(v) for v in proj.file_patterns.values())), m["shared_lines"] > 0,
               tuple(m["eols"]), tuple(m["kinds"]), m["fmt"], m["globs"] > 0)
        ctx.evaluated(ntk, sample={"vp": proj.vp, "old": proj.cur_text, "new": a, "argv": res.args,
                                   "files": {k: v[:200] for k, v in list(proj.files.items())[:2]}})
        if m["shared_lines"]:
            ctx.count("shared_line_updates")
        if m["globs"]:
            ctx.count("glob_entry_updates")
        if m.get("aliased_path_entries"):
            ctx.count("aliased_path_entry_updates")
        if m.get("end_anchored_patterns"):
            ctx.count("updates_with_end_anchored_patterns")
        if m.get("cfg_listed_under_alias"):
            ctx.count("updates_with_config_file_listed_under_another_spelling")
        if m.get("own_line_pattern_left_to_bumpver"):
            ctx.count("updates_with_listed_config_file_lacking_the_own_line_pattern")
        if m.get("repeated_occurrences"):
            ctx.count("updates_with_a_pattern_on_several_lines")
            if "mixed" in m["eols"]:
                ctx.count("updates_with_repeated_pattern_in_mixed_eol_file")
        for prob in problems:
            cls, msg = prob[0], prob[1]
            if cls.startswith("pep440-occurrence"):
                # C15's subject; reported here only as a stale occurrence when the text did not change at all
                ctx.count("pep440_mismatch_left_to_C15")
                continue
            kind = "other:" + cls
            if cls == "stale-or-wrong-occurrence" and len(prob) > 2 and projects.shares_line(proj, prob[2]):
                kind = "shared_line_replacement_from_old_line"
            if cls == "stale-or-wrong-occurrence" and len(prob) > 2 and proj.eol.get(prob[2].file) == "mixed" and \
                    projects.in_chunk_after_same_pattern(proj, prob[2]):
                # known mechanism, verified per case (see projects.in_chunk_after_same_pattern)
                kind = "mixed_line_endings_one_match_per_chunk"
            ctx.violation(kind, f"{msg} (vp={proj.vp!r} old={proj.cur_text!r} new={a!r})", observed=desc)
        sres = harness.invoke(["show", "--no-fetch"], cwd=d)
        cur = sres.stdout_value("Current Version: ")
        if sres.exit_code != 0 or cur != a:
            ctx.violation("other:show_disagrees", f"show says {cur!r} (exit {sres.exit_code}) after update to {a!r}",
                          observed=dict(desc, show=sres.brief()))
        else:
            ctx.count("show_ok")
    finally:
        harness.rm_dir(d)



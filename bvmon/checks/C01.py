"""C01 - a successful bump yields a valid, strictly greater version; otherwise non-zero exit, nothing changed.

Monitors: (a) every `bumpver test` execution: exit 0 <=> a version is announced; the announced text is
recognised in full by the independent recogniser R1 and is strictly greater under PEP 440 (packaging);
(b) `bumpver update [--dry]` in generated projects (optionally with tags served by the fake git): same
oracle on the `Old Version:`/`New Version:` records, plus byte snapshot + audit write-set on failure, plus the
K-order trace contract (the gate returned True for that version before rewrite_files was entered).
"""
import datetime as dt
import random

from packaging.version import InvalidVersion, Version

from bvmon import contracts, gen, harness, projects, ref, updates

SPEC = dict(
    level="exploration",
    rule=("test-level: grammar-G pattern x reachable state x flag set x date, or a --set-version target of class "
          "greater / equal / lower / tag-downgrade / malformed / PEP 440-equal-but-textually-different; "
          "update-level: generated project x (auto increment | --set-version class) x dry/real x tags served by a "
          "fake git; non-trivial+distinct = distinct (level, pattern shape, flag set or set-version class, "
          "outcome accepted/rejected) tuples"),
    assumptions=[
        "R1 decides 'matches the pattern in full'; packaging decides PEP 440 order; a non-PEP 440 announced version "
        "is only acceptable against a non-PEP 440 start (weak oracle: must differ), counted separately",
        "start versions are valid for their pattern (reachable states); week 53 starts are excluded (known finding)",
    ],
    required=["test:accepted", "test:rejected", "update:accepted", "update:rejected", "setver:equal:rejected",
              "setver:lower:rejected", "setver:malformed:rejected", "setver:pep-equal:rejected", "korder_checked",
              "update_scope:default", "update_scope:global", "update_scope:branch", "fetch_failure_cases", "bad_date_cases", "updates_with_a_pattern_that_cannot_be_found"],
    anchors=[("cli", "_is_valid_version"), ("v2version", "incr"), ("cli", "update"), ("cli", "test")],
)

PEP_EQ_PATTERNS = ["MAJOR.MINOR[.PATCH]", "vMAJOR.MINOR[.PATCH]", "MAJOR[.MINOR[.PATCH]]", "YYYY.MM[.INC0]",
                   "YYYY.BUILD[.PATCH]", "MAJOR.MINOR[.PATCH[PYTAGNUM]]", "YY.0M[.MINOR[.PATCH]]", "MAJOR.MINOR[.PATCH][-TAG]",
                   "YYYY.MM[.PATCH[-TAGNUM]]", "MAJOR.MINOR[PYTAG[NUM]]"]
SETVER_CLASSES = ["greater", "equal", "lower", "tag-downgrade", "malformed", "pep-equal"]


def cases(ctx):
    R = ctx.rng
    n = ctx.size(12000, 500000)
    for i in range(n):
        kind = "setver" if i % 3 == 0 else "auto"
        yield {"level": "test", "kind": kind, "seed": R.getrandbits(48)}
    m = ctx.size(1600, 40000)
    for i in range(m):
        yield {"level": "update", "kind": "setver" if i % 2 else "auto", "seed": R.getrandbits(48)}


def make_setver(R, ast, names, st, old_text, tdy, cls):
    """A --set-version target of the given class (or None)."""
    if cls == "equal":
        return old_text
    if cls == "greater":
        for _ in range(6):
            fl = gen.gen_flags(R, names, applicable_only=True)
            if not any(fl[k] for k in ("major", "minor", "patch")) and "PATCH" in names:
                fl["patch"] = True
            d = _state_date(st, tdy) + dt.timedelta(R.choice([0, 1, 40, 400]))
            exp, _why = updates.model_bump_ast(ast, old_text, fl, d, tdy)
            if exp:
                return exp
        return None
    if cls == "pep-equal":
        t = ref.render_full(ast, st)
        if t != old_text and ref.parse(ast, t) is not None:
            try:
                if Version(t) == Version(old_text):
                    return t
            except InvalidVersion:
                return None
        return None
    if cls == "lower":
        cand = dict(st)
        opts = [f for n in names for f in [ref.FIELD[n]] if f in ("major", "minor", "patch", "inc0", "num") and st[f] > 0]
        if opts and R.random() < 0.7:
            f = R.choice(opts)
            cand[f] -= 1
        else:
            d = _state_date(st, tdy) - dt.timedelta(R.choice([1, 32, 370]))
            cand.update(ref.cal_from_date(d))
        t = ref.render(ast, cand)
        if t == old_text or ref.parse(ast, t) is None:
            return None
        try:
            if not Version(t) < Version(old_text):
                return None
        except InvalidVersion:
            return None
        return t
    if cls == "tag-downgrade":
        if not any(n in names for n in ("TAG", "PYTAG")):
            return None
        i = ref.TAG_ORDER.index("rc" if st["tag"] == "preview" else st["tag"])
        if i == 0:
            return None
        cand = dict(st, tag=R.choice(ref.TAG_ORDER[:i]))
        t = ref.render(ast, cand)
        try:
            if ref.parse(ast, t) is None or not Version(t) < Version(old_text):
                return None
        except InvalidVersion:
            return None
        return t
    if cls == "malformed":
        r = R.random()
        if r < 0.2:
            t = R.choice(["junk", "", " ", "1..2", "v", "latest", "1.2.3.4.5.6.7", "١٢٣", "1.2.3\n", "0x10"])
        elif r < 0.45:
            t = old_text[:-1] if len(old_text) > 1 else old_text + "x"
        elif r < 0.7:
            t = old_text + R.choice(["x", ".", "-", " ", "+local", "/", "\t"])
        elif r < 0.85:
            t = R.choice(["x", " ", "#"]) + old_text
        else:
            t = R.choice(["1.2.3", "v2020.1001-beta", "2020.12.31", "20.4", "1!2.0", "2021w05"])
        if t == "" or ref.parse(ast, t) is not None:
            return None
        return t
    return None


def _state_date(st, tdy):
    try:
        if st.get("year_y") and st.get("month") and st.get("dom"):
            return dt.date(st["year_y"], st["month"], st["dom"])
        y = st.get("year_y") or st.get("year_g") or tdy.year
        return dt.date(y, st.get("month") or 6, 15)
    except ValueError:
        return tdy


def judge(ctx, level, case, ast, start_text, res, announced, cls, ntk_extra, sample):
    """Common oracle on one finished invocation. Returns True if accepted."""
    if res.exit_code == 0:
        if announced is None:
            ctx.violation("other:exit0_without_announced_version", f"{res.args}", observed=res.brief())
            return False
        bad = None
        if ref.parse(ast, announced) is None:
            bad = ("other:announced_version_does_not_match_pattern",
                   f"{res.args}: announced {announced!r} is not a full match of the pattern")
        else:
            g = updates.gate(start_text, announced)
            if g == "refuse":
                bad = ("other:announced_version_not_greater",
                       f"{res.args}: announced {announced!r} is not > start {start_text!r} under PEP 440")
            elif g == "unknown":
                ctx.count("weak_oracle_both_legacy")
                if announced == start_text:
                    bad = ("other:announced_version_equals_start", f"{res.args}: {announced!r}")
        if bad:
            ctx.violation(bad[0], bad[1], observed=res.brief())
        ctx.count(f"{level}:accepted")
        if cls:
            ctx.count(f"setver:{cls}:accepted")
        ctx.evaluated((level, ntk_extra, cls or "auto", "acc"), sample=sample)
        return True
    ctx.count(f"{level}:rejected")
    if cls:
        ctx.count(f"setver:{cls}:rejected")
    ctx.evaluated((level, ntk_extra, cls or "auto", "rej"), sample=sample)
    return False


def run_case(ctx, case):
    R = random.Random(case["seed"])
    tdy = updates.today()
    if case["level"] == "test":
        return run_test(ctx, case, R, tdy)
    return run_update(ctx, case, R, tdy)


def run_test(ctx, case, R, tdy):
    p = gen.gen_pattern(R)
    want_cls = R.choice(SETVER_CLASSES) if case["kind"] == "setver" else None
    if want_cls == "pep-equal":
        p = R.choice(PEP_EQ_PATTERNS)
    ast = ref.parse_pattern(p)
    names = list(ref.parts_in(ast))
    _d, st0 = gen.gen_state(R, names)
    if want_cls == "pep-equal":
        st0.update(patch=0, inc0=0, num=0, tag=R.choice(["final", "final", st0["tag"]]))
        if R.random() < 0.5:
            st0.update(minor=0)
    rs = gen.reachable(ast, st0, tdy)
    if rs is None:
        raise harness.Skip("unreachable-state")
    old_text, st = rs
    if ref.n_full_parses(ast, old_text) != 1:
        raise harness.Skip("ambiguous-text")
    if projects._week53(names, st):
        raise harness.Skip("week53-start")
    cls = None
    if case["kind"] == "setver":
        cls = want_cls
        t = make_setver(R, ast, names, st, old_text, tdy, cls)
        if t is None:
            raise harness.Skip("no-setver-target:" + cls)
        fl = gen.gen_flags(R, names, applicable_only=True) if R.random() < 0.3 else {}
        args = ["test", old_text, p, "--set-version", t] + gen.flags_to_args(fl, _state_date(st, tdy) if R.random() < 0.5 else None)
        flagkey = "setver"
    else:
        fl = gen.gen_flags(R, names)
        date = _state_date(st, tdy) + dt.timedelta(R.choice(gen.DATE_OFFSETS))
        args = ["test", old_text, p] + gen.flags_to_args(fl, date)
        flagkey = "".join("1" if fl.get(f) else "0" for f in gen.FLAG_NAMES)
    res = harness.invoke(args)
    announced = res.stdout_value("New Version: ") if res.exit_code == 0 else None
    if res.exit_code != 0 and "New Version:" in res.stdout:
        ctx.violation("other:announced_but_nonzero_exit", f"{args}", observed=res.brief())
    acc = judge(ctx, "test", case, ast, old_text, res, announced, cls, (ref.shape(ast), flagkey),
                {"argv": args, "exit": res.exit_code, "announced": announced})
    if cls in ("equal", "lower", "tag-downgrade", "malformed", "pep-equal") and acc:
        # already reported by judge() through the order / match oracle; keep an explicit class for the report
        ctx.count("setver_bad_target_accepted")


def run_update(ctx, case, R, tdy):
    mods = updates.bvmods()
    contracts.install_order_monitor()
    cfg_scope = R.choice([None, None, "default", "global", "branch"])
    cli_scope = R.choice([None, None, None, "default", "global", "branch"])
    proj, why = projects.gen_project(R, mods, tdy, eol_choices=("\n",), n_files=R.randint(1, 3), max_patterns=2,
                                     allow_partial=False, cfg_fmt="toml",
                                     commit_cfg={"tag_scope": cfg_scope} if cfg_scope else None)
    if proj is None:
        raise harness.Skip(why)
    must_fail = None
    if case["seed"] % 8 == 3:
        # "in every other case": a configuration with a pattern that can never be found (a bare `{version}` listed after
        # `rev {version};` - every match lies inside the other's) makes the rewrite fail, whatever the arguments are
        from bvmon.checks.C06 import shadowed_variant
        for fn in sorted(proj.files):
            sh = shadowed_variant(proj, fn, mods, R)
            if sh is not None:
                proj, must_fail = sh, fn
                ctx.count("updates_with_a_pattern_that_cannot_be_found")
                break
    ast = ref.parse_pattern(proj.vp)
    names = list(ref.parts_in(ast))
    st, old_text = proj.cur_state, proj.cur_text
    start_text = old_text
    d = harness.new_project(proj.encoded())
    fake = None
    env = None
    fetch_arg = "--no-fetch"
    try:
        # optionally: tags served by a fake git (default scope => start = max(config, matching tags))
        if R.random() < 0.4:
            fake = harness.FakeVCS(d, "git")
            env = fake.env
            tags = []
            for _ in range(R.randint(1, 5)):
                _dd, s2 = gen.gen_state(R, names)
                rs = gen.reachable(ast, s2, tdy)
                if rs and ref.n_full_parses(ast, rs[0]) == 1 and not projects._week53(names, rs[1]):
                    tags.append(rs[0])
            tags += R.sample(["junk", "v0", "1.2.3", "release-1"], R.randint(0, 2))
            tags = [t for t in tags if ref.parse(ast, t) is not None or True]
            merged = [t for t in tags if R.random() < 0.5]
            fake.set_out("tag-list", "\n".join(tags) + "\n")
            fake.set_out("tag-merged", "\n".join(merged) + "\n")
            scope = cli_scope or cfg_scope or "default"
            pool = merged if scope == "branch" else tags
            matching = [t for t in pool if ref.parse(ast, t) is not None]
            from bvmon.checks.C09 import vkey
            if any(vkey(t) is None for t in matching) or vkey(old_text) is None:
                raise harness.Skip("tag-order-unknown(non PEP 440)")
            if not matching:
                start_text = old_text
            else:
                best = max(matching, key=vkey)
                if scope == "default":
                    start_text = old_text if vkey(best) <= vkey(old_text) else best
                else:
                    start_text = best
            ctx.count("update_scope:" + scope)
            if R.random() < 0.15:
                # the implicit fetch fails (unreachable remote): non-zero exit is fine, but a run that exits 0 must
                # still start from the greatest local tag
                fake.set_out("branch", "*origin\n")
                fake.set_out("remote", "git@unreachable.example:x/y.git\n")
                fake.fail_match(["git fetch"])
                fetch_arg = "--fetch"
                ctx.count("fetch_failure_cases")
            start_state = updates.new_state_from_text(proj.vp, start_text, tdy)
        else:
            start_state = st
        cls = None
        dry = R.random() < 0.35
        if case["kind"] == "setver":
            cls = R.choice(SETVER_CLASSES)
            t = make_setver(R, ast, names, start_state, start_text, tdy, cls)
            if t is None:
                raise harness.Skip("no-setver-target:" + cls)
            args = ["update", "--no-fetch", "--set-version", t]
            flagkey = "setver"
        else:
            fl = gen.gen_flags(R, names)
            date = _state_date(start_state, tdy) + dt.timedelta(R.choice(gen.DATE_OFFSETS))
            args = updates.update_args(fl, date)
            flagkey = "".join("1" if fl.get(f) else "0" for f in gen.FLAG_NAMES)
        bad_date = None
        if R.random() < 0.06:
            # malformed / contradictory date arguments: the invocation must be refused, nothing may change
            bad_date = R.choice([["--date", "2021-02-30"], ["--date", "junk"], ["--date", "2021-13-01"],
                                 ["--date", "21-01-01x"], ["--pin-date", "--date", "2021-01-01"]])
            args = [a for a in args if a not in ("--pin-date",)]
            if "--date" in args:
                i = args.index("--date")
                del args[i:i + 2]
            args += bad_date
            ctx.count("bad_date_cases")
        if dry:
            args.append("--dry")
        if cli_scope:
            args += ["--tag-scope", cli_scope]
        args = [fetch_arg if a == "--no-fetch" else a for a in args]
        before = harness.snapshot(d)
        res = harness.invoke(args, cwd=d, env=env)
        after = harness.snapshot(d)
        announced = res.record_value("New Version: ") if res.exit_code == 0 else None
        logged_old = res.record_value("Old Version: ")
        if res.exit_code == 0 and logged_old is not None and logged_old != start_text:
            if updates.gate(start_text, logged_old) != "unknown" and _veq(logged_old, start_text) is False:
                ctx.violation("other:start_version_not_the_greatest", f"{args}: Old Version {logged_old!r}, expected "
                              f"{start_text!r} (config {old_text!r})", observed=res.brief())
        judge(ctx, "update", case, ast, logged_old if logged_old is not None else start_text, res, announced, cls,
              (ref.shape(ast), flagkey, dry, fake is not None),
              {"argv": args, "exit": res.exit_code, "announced": announced, "start": start_text, "vp": proj.vp})
        if must_fail and res.exit_code == 0:
            ctx.violation("other:update_succeeds_although_a_pattern_cannot_be_found", f"{args}: exit 0 ({must_fail})",
                          observed=dict(res=res.brief(), project=proj.describe()))
        if bad_date and res.exit_code == 0:
            ctx.violation("other:bad_date_argument_accepted", f"{args}: exit 0", observed=res.brief())
        changed = harness.diff_snapshots(before, after)
        wset = harness.writes_inside(res, d)
        if res.exit_code != 0 or dry:
            if changed or wset:
                what = "dry" if dry else "failed"
                ctx.violation(f"other:{what}_update_changed_files",
                              f"{args}: exit {res.exit_code}, changed={changed}, write-set={sorted(wset)}",
                              observed=dict(res=res.brief(), project=proj.describe()))
        msgs = contracts.order_violations(res.trace, dry, announced)
        ctx.count("korder_checked")
        if any(n == "rewrite_enter" for n, _ in res.trace):
            ctx.count("korder_rewrites_seen")
        for m in msgs:
            ctx.violation("other:order:" + m, f"{args}: {m}; trace={[n for n, _ in res.trace]}", observed=res.brief())
        if fake is not None:
            muts = [harness.mutating_kind(e) for e in fake.events()]
            muts = [m for m in muts if m and m != "fetch"]
            if muts and (res.exit_code != 0 or dry):
                ctx.violation("other:vcs_mutation_on_failed_or_dry_update", f"{args}: {muts}", observed=res.brief())
    finally:
        harness.rm_dir(d)
        if fake:
            fake.destroy()


def _veq(a, b):
    try:
        return Version(a) == Version(b)
    except InvalidVersion:
        return None

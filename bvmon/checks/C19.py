"""C19 - `init` always produces a configuration that bumpver itself can use.

Boundary monitors around `bumpver init --dry`, `bumpver init`, `bumpver show`, second `bumpver init`: byte
snapshots, audit write-set, exit codes, the version `show` reports.
"""
import itertools

from bvmon import harness

PLAIN = ["README.md", "README.rst", "setup.py"]
CONFIGS = ["setup.cfg", "pyproject.toml", "bumpver.toml", ".bumpver.toml", "pycalver.toml"]
PRIORITY = ["pycalver.toml", "bumpver.toml", ".bumpver.toml", "pyproject.toml", "setup.cfg"]

UNRELATED = {
    "README.md": "# Project\n\nSome text.\n", "README.rst": "Project\n=======\n\ntext\n",
    "setup.py": "import setuptools\nsetuptools.setup(name='x', version='2020.1001a0')\n",
    "setup.cfg": "[metadata]\nname = x\n\n[flake8]\nmax-line-length = 100\n",
    # (with PEP 735 dependency groups: an array that holds strings and a table)
    "pyproject.toml": "[build-system]\nrequires = [\"setuptools\"]\n\n[dependency-groups]\nbase = [\"attrs\"]\n"
                      "test = [\"pytest\", {include-group = \"base\"}]\n\n[tool.black]\nline-length = 100\n",
    "bumpver.toml": "[other]\nkey = \"value\"\n", ".bumpver.toml": "# just a comment\n", "pycalver.toml": "[misc]\nx = 1\n",
}
TOOLTABLE = {
    "setup.cfg": "[tool:pytest]\naddopts = -q\n\n[mypy]\nstrict = True\n",
    "pyproject.toml": "[tool.black]\nline-length = 100\n\n[tool.isort]\nprofile = \"black\"\n",
    "bumpver.toml": "[tool.black]\nline-length = 100\n", ".bumpver.toml": "[tool.other]\nx = 1\n",
    "pycalver.toml": "[tool.black]\nline-length = 88\n\n[project]\nname = \"x\"\n",
}
UNRELATED_HARD = {
    "setup.cfg": "[metadata]\r\nname = ünï\r\ndescription = no trailing newline",
    "pyproject.toml": "[tool.poetry]\r\nname = \"ünï-🚀\"\r\n\r\n[tool.other]\r\nbumpver_like = \"current_version\"",
    "bumpver.toml": "# ünï 🚀\r\n[other]\r\nk = 'v'",
    ".bumpver.toml": "[x]\ny = \"z\"   # no newline at end",
    "pycalver.toml": "[misc]\nx = \"日本語\"\n\n\n",
}


# unrelated content that merely MENTIONS the markers (another tool's current_version, a table whose name ends in
# `bumpver]`, a comment): not a bumpver section
LOOKALIKE = {
    "setup.cfg": "[bumpversion]\ncurrent_version = 1.0.0\n\n[tool:bumpver]\nnote = x\n",
    "pyproject.toml": "[tool.bumpversion]\ncurrent_version = \"1.0.0\"\n\n[tool.hatch.envs.bumpver]\ndependencies = [\"bumpver\"]\n",
    "bumpver.toml": "# moved: see [tool.bumpver] current_version in pyproject.toml\n",
    ".bumpver.toml": "[other]\nnote = \"see [bumpver] current_version\"\n",
    "pycalver.toml": "[misc]\nx = \"[pycalver] current_version\"\n",
}


def section(fn):
    if fn == "setup.cfg":
        return ("[bumpver]\ncurrent_version = 2019.1001-alpha\nversion_pattern = YYYY.BUILD[-TAG]\ncommit = False\n\n"
                "[bumpver:file_patterns]\nsetup.cfg =\n    current_version = {version}\n")
    sect = "tool.bumpver" if fn == "pyproject.toml" else ("pycalver" if fn == "pycalver.toml" else "bumpver")
    return (f'[{sect}]\ncurrent_version = "2019.1001-alpha"\nversion_pattern = "YYYY.BUILD[-TAG]"\ncommit = false\n\n'
            f'[{sect}.file_patterns]\n"{fn}" = [\'current_version = "{{version}}"\']\n')


SPEC = dict(
    level="exploration",
    rule=("quick: ALL 2^8 subsets of {README.md, README.rst, setup.py, setup.cfg, pyproject.toml, bumpver.toml, "
          ".bumpver.toml, pycalver.toml} with each config-capable file {absent, empty, unrelated content, unrelated "
          "content without final newline} and the other files present with content (incl. a [tool.x] table; 8 x 5^5 = 25,000 layouts) + layouts "
          "with an existing bumpver section; thorough: config-capable files {absent, empty, unrelated, no final "
          "newline, existing section, unrelated CRLF/Unicode/no final newline} (8 x 7^5 = 134,456); each layout: init --dry, init, show, init again; non-trivial+distinct = distinct "
          "(layout, file chosen) pairs"),
    assumptions=["prior content of config-capable files is valid TOML/INI (init appends to it)",
                 "the initial version is '<current UTC year>.1001-alpha'"],
    required=["layouts", "init_appended_to_existing_file", "init_created_new_file", "show_ok", "second_init_refused",
              "existing_section_preferred", "existing_section_with_comment_after_header", "existing_section_with_blanks_around_header", "unrelated_content_that_mentions_the_markers", "existing_section_far_down_a_long_file", "dry_runs_clean", "pinned_clock_cases"],
    anchors=[("config", "_pick_config_filepath"), ("config", "default_config"), ("config", "write_content"),
             ("cli", "init")],
    exhaustive={"quick": True, "thorough": True},
    exhaustive_note="the layout products named in 'rule' are enumerated completely",
)


def cases(ctx):
    opts = ["absent", "empty", "unrelated", "nonl", "tooltable"] if ctx.quick else \
        ["absent", "empty", "unrelated", "nonl", "tooltable", "section", "hard"]
    k = 0
    for plain in itertools.product([False, True], repeat=3):
        for cfgs in itertools.product(opts, repeat=5):
            if ctx.mine(k):
                yield {"plain": list(plain), "cfgs": list(cfgs)}
            k += 1
    # "this year's initial version" on days around New Year (the clock bumpver reads, utils.now, is pinned)
    for date in CLOCK_DATES:
        for plain, cfgs in (([True, False, False], ["absent"] * 5), ([True, False, True], ["absent", "unrelated", "absent", "absent", "absent"]),
                            ([False, True, True], ["unrelated", "absent", "absent", "empty", "absent"])):
            if ctx.mine(k):
                yield {"plain": plain, "cfgs": cfgs, "clock": date}
            k += 1
    if ctx.quick:
        # existing sections (sampled product in quick: one or two sections among other files)
        for i, fn in enumerate(CONFIGS):
            for others in itertools.product(["absent", "unrelated"], repeat=4):
                cfgs = list(others)
                cfgs.insert(i, "section")
                if ctx.mine(k):
                    yield {"plain": [True, False, True], "cfgs": cfgs}
                k += 1
    # (the following header / content variants run on both tiers)
    for i, fn in enumerate(CONFIGS):
        for others in (["absent"] * 4, ["unrelated"] * 4, ["empty", "absent", "unrelated", "absent"]):
            cfgs = list(others)
            cfgs.insert(i, "section#")
            if ctx.mine(k):
                yield {"plain": [True, False, True], "cfgs": cfgs}
            k += 1
    # a real section in ONE file, look-alike content in all the others (whatever their priority)
    for i, fn in enumerate(CONFIGS):
        for opt in ("section", "section_s"):
            if opt == "section_s" and fn == "setup.cfg":
                continue
            cfgs = ["lookalike"] * 4
            cfgs.insert(i, opt)
            if ctx.mine(k):
                yield {"plain": [True, False, True], "cfgs": cfgs}
            k += 1
    # look-alike content only: init has to work as for any unrelated content
    for i, fn in enumerate(CONFIGS):
        cfgs = ["absent"] * 4
        cfgs.insert(i, "lookalike")
        if ctx.mine(k):
            yield {"plain": [True, False, False], "cfgs": cfgs}
        k += 1
    for i, fn in enumerate(CONFIGS):
        for others in (["unrelated"] * 4, ["empty", "absent", "unrelated", "absent"]):
            cfgs = list(others)
            cfgs.insert(i, "section_far")
            if ctx.mine(k):
                yield {"plain": [True, False, True], "cfgs": cfgs}
            k += 1
    for i, fn in enumerate(CONFIGS):
        for opt in ("section_t", "section_i"):
            if opt == "section_i" and fn == "setup.cfg":
                continue        # (an indented line is a continuation line for configparser, not a header)
            for others in (["absent"] * 4, ["unrelated"] * 4):
                cfgs = list(others)
                cfgs.insert(i, opt)
                if ctx.mine(k):
                    yield {"plain": [True, False, True], "cfgs": cfgs}
                k += 1


# days on which the ISO (week-based) year differs from the calendar year, their neighbours, and ordinary days
CLOCK_DATES = ["2024-12-29", "2024-12-30", "2024-12-31", "2025-01-01", "2026-12-31", "2027-01-01", "2027-01-03", "2027-01-04",
               "2021-01-03", "2020-12-31", "2032-01-01", "2026-06-15", "2028-02-29"]


def run_case(ctx, case):
    harness.bv()
    import bumpver.utils as bvu
    if case.get("clock"):
        import datetime as dt
        real_now = bvu.now
        fixed = dt.datetime.fromisoformat(case["clock"] + "T12:00:00+00:00")
        bvu.now = lambda: fixed
        ctx.count("pinned_clock_cases")
        try:
            return run_layout(ctx, case, bvu)
        finally:
            bvu.now = real_now
    return run_layout(ctx, case, bvu)


def run_layout(ctx, case, bvu):
    files = {}
    for fn, present in zip(PLAIN, case["plain"]):
        if present:
            files[fn] = UNRELATED[fn]
    sections = []
    for fn, opt in zip(CONFIGS, case["cfgs"]):
        if opt == "empty":
            files[fn] = ""
        elif opt == "unrelated":
            files[fn] = UNRELATED[fn]
        elif opt == "hard":
            files[fn] = UNRELATED_HARD[fn]
        elif opt == "tooltable":
            # unrelated content that uses the [tool.*] namespace (a bumpver.toml may hold other tools' tables)
            files[fn] = TOOLTABLE[fn]
        elif opt == "lookalike":
            files[fn] = LOOKALIKE[fn]
            ctx.count("unrelated_content_that_mentions_the_markers")
        elif opt == "nonl":
            files[fn] = UNRELATED[fn].rstrip("\n")   # prior content whose last line has no newline
        elif opt in ("section", "section#", "section_t", "section_i", "section_s", "section_far"):
            sec = section(fn)
            if opt == "section_far":
                # the section stands far down a long file (after more than 8 KiB of other content)
                pad = "".join(f"# classifier line {i:04d}: Programming Language :: Python :: Implementation\n" for i in range(150))
                sec = pad + "\n" + sec
                ctx.count("existing_section_far_down_a_long_file")
            if opt == "section_s":
                # blanks inside the brackets of the header (legal TOML)
                head, rest = sec.split("\n\n")[0].split("\n", 1)
                sec = "[ " + head[1:-1] + " ]\n" + rest + "\n"
                ctx.count("existing_section_with_blanks_around_header")
            if opt in ("section_t", "section_i"):
                # the header line ends in blanks / a tab, or is indented (keys at column 0): still the same section
                head, rest = sec.split("\n\n")[0].split("\n", 1)
                sec = (head + (" \t" if len(fn) % 2 else "  ") if opt == "section_t" else "  " + head) + "\n" + rest + "\n"
                ctx.count("existing_section_with_blanks_around_header")
            if opt == "section#":
                # the same section, its header followed by a comment (valid TOML, and accepted by configparser)
                # (without a file_patterns table: the pattern for the own current_version line is left to bumpver)
                head, rest = sec.split("\n\n")[0].split("\n", 1)
                sec = head + "  # release config [see docs]\n" + rest + "\n"
                ctx.count("existing_section_with_comment_after_header")
            files[fn] = UNRELATED[fn] + "\n" + sec if fn != ".bumpver.toml" else sec
            sections.append(fn)
    # model of the choice: first candidate with a section, else first existing candidate, else bumpver.toml
    with_section = [fn for fn in PRIORITY if fn in sections]
    existing = [fn for fn in PRIORITY if fn in files]
    chosen = with_section[0] if with_section else (existing[0] if existing else "bumpver.toml")
    d = harness.new_project(files)
    try:
        before = harness.snapshot(d)
        year = bvu.now().year
        dry = harness.invoke(["init", "--dry"], cwd=d)
        mid = harness.snapshot(d)
        desc = {"layout": {k: (case["cfgs"][CONFIGS.index(k)] if k in CONFIGS else "present") for k in files},
                "chosen_by_model": chosen}
        ctx.count("layouts")
        ctx.evaluated((tuple(case["plain"]), tuple(case["cfgs"]), chosen, case.get("clock")), sample=desc)
        if mid != before or harness.writes_inside(dry, d):
            ctx.violation("other:init_dry_wrote", f"init --dry changed {harness.diff_snapshots(before, mid)} "
                          f"write-set {sorted(harness.writes_inside(dry, d))}", observed=desc)
        else:
            ctx.count("dry_runs_clean")
        res = harness.invoke(["init"], cwd=d)
        after = harness.snapshot(d)
        changed = harness.diff_snapshots(before, after)
        if sections:
            ctx.count("existing_section_preferred")
            # already configured: init must refuse and change nothing; show must read the existing section
            if res.exit_code == 0 or changed:
                ctx.violation("other:init_did_not_refuse_configured_project", f"exit {res.exit_code}, changed {changed}",
                              observed=dict(desc, res=res.brief()))
            s = harness.invoke(["show", "--no-fetch"], cwd=d)
            if s.exit_code != 0 or s.stdout_value("Current Version: ") != "2019.1001-alpha":
                ctx.violation("other:existing_section_not_preferred", f"show: exit {s.exit_code} {s.stdout!r} "
                              f"{s.errors()[-2:]}", observed=desc)
            else:
                ctx.count("show_ok")
            ctx.count("second_init_refused")
            return
        if res.exit_code != 0:
            ctx.violation("other:init_failed", f"init exits {res.exit_code} on an unconfigured directory: "
                          f"{res.errors()[-2:]} {res.crash or ''}", observed=dict(desc, res=res.brief()))
            return
        if changed != [chosen]:
            ctx.violation("other:init_changed_wrong_files", f"init changed {changed}, the model expects exactly [{chosen!r}]",
                          observed=desc)
            return
        old = before.get(chosen)
        if old is None:
            ctx.count("init_created_new_file")
        else:
            ctx.count("init_appended_to_existing_file")
            if not after[chosen].startswith(old):
                ctx.violation("other:init_destroyed_prior_content", f"{chosen}: prior content is not a prefix any more",
                              observed=desc)
        s = harness.invoke(["show", "--no-fetch"], cwd=d)
        cur = s.stdout_value("Current Version: ")
        if s.exit_code != 0 or cur != f"{year}.1001-alpha":
            ctx.violation("other:show_after_init", f"show after init: exit {s.exit_code}, version {cur!r} (expected "
                          f"{year}.1001-alpha): {s.errors()[-3:]} {s.crash or ''}", observed=dict(desc, written=after[chosen].decode('utf-8', 'replace')[-600:]))
        else:
            ctx.count("show_ok")
        pep = s.stdout_value("PEP440         : ")
        if s.exit_code == 0 and pep != f"{year}.1001a0":
            ctx.violation("other:show_after_init_pep440", f"{pep!r}", observed=desc)
        res2 = harness.invoke(["init"], cwd=d)
        after2 = harness.snapshot(d)
        if res2.exit_code == 0 or after2 != after:
            ctx.violation("other:second_init_not_refused", f"exit {res2.exit_code}, changed {harness.diff_snapshots(after, after2)}",
                          observed=desc)
        else:
            ctx.count("second_init_refused")
    finally:
        harness.rm_dir(d)

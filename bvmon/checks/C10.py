"""C10 - VCS steps run only as configured, in order, and stop at the first failure (fault enumeration).

History + executable model: fake `git`/`hg` executables and hook scripts append every invocation (argv, env,
checksum of every project file at that moment) to ONE totally ordered event log. The projection of that log
onto mutating events is compared with the trace the model R7 allows for the configuration; then every VCS
command / hook invocation of a run is made to fail in turn.
"""
import itertools
import random

from bvmon import harness

FACTORS = [
    ("cfg_commit", 2), ("cfg_tag", 3), ("cfg_push", 3),   # config: commit false/true; tag, push: 0 absent, 1 true, 2 false
    ("cli_commit", 3), ("cli_tag", 3), ("cli_push", 3),   # 0 = not given, 1 = --x, 2 = --no-x
    ("pre", 3), ("post", 3),   # 0 absent, 1 succeeds, 2 fails
    ("dirty", 2), ("allow_dirty", 2), ("tagmsg", 2), ("remote", 2), ("dry", 2),
    ("fetch", 2), ("vcs", 2),
]
SIZES = [n for _, n in FACTORS]
TOTAL = 1
for _n in SIZES:
    TOTAL *= _n   # 18 x 27 x 9 x 32 = 139,968 configurations, x fetch x vcs = 559,872

SPEC = dict(
    level="fault_enumeration",
    rule=("configurations = config commit {false, true} x tag, push {absent, true, false} (18, incl. the contradictory "
          "ones that must be rejected) x tri-state --commit/--tag-commit/--push (27) x pre/post hook {absent, ok, fails} (9) x dirty x "
          "--allow-dirty x tag message {empty, set} x remote {present, absent} x --dry (139,968, a superset of the "
          "statement's 77,760) x fetch on/off x {git, hg command set} = 559,872: thorough enumerates ALL, quick samples 6,000 + every single factor level; two more "
          "variations are derived from the configuration index (hooks given on the command line; a VCS tag newer than "
          "the config version); plus, for a set of base configurations, EVERY logged VCS/hook invocation is "
          "made to fail in turn; non-trivial+distinct = distinct configurations whose allowed trace has >= 1 mutating "
          "event + distinct (failed step kind, position) pairs"),
    assumptions=["R7 (function expected() below) encodes the statement's pipeline; read-only VCS queries are ignored",
                 "hg is only observed up to the argv/log-file boundary (no hg binary here)"],
    required=["hooks_killed_by_a_signal", "failed_add_of_a_file_whose_name_reads_like_a_vcs_message", "runs", "noisy_hook_runs", "dirty_pattern_file_with_allow_dirty", "runs_with_mutating_trace", "fault_runs", "hook_env_checked", "contradictions_rejected",
              "dry_runs", "no_fetch_runs", "vcs:git", "vcs:hg", "failed_step:commit", "failed_step:tag",
              "failed_step:pre-hook", "order_by_checksum_checked"],
    anchors=[("cli", "_parse_vcs_options"), ("cli", "_update"), ("vcs", "commit"), ("hooks", "run"),
             ("vcs", "get_tags"), ("vcs", "assert_not_dirty")],
    exhaustive={"quick": False, "thorough": True},
    exhaustive_note="thorough enumerates all 559,872 configurations of the product named in 'rule'; fault positions are enumerated completely for the "
                    "sampled base configurations",
)


def decode(idx):
    out = {}
    for (name, n) in FACTORS:
        out[name] = idx % n
        idx //= n
    return out


def cases(ctx):
    if ctx.quick:
        R = random.Random(f"{ctx.seed}:C10")
        picks = set(R.randrange(TOTAL) for _ in range(6000))
        # every single factor level at least once, deterministically
        base = 0
        mult = 1
        for (name, n) in FACTORS:
            for lv in range(n):
                picks.add(lv * mult)
            mult *= n
        for k, idx in enumerate(sorted(picks)):
            if ctx.mine(k):
                yield {"kind": "cfg", "idx": idx}
    else:
        for idx in range(ctx.shard, TOTAL, ctx.nshards):
            yield {"kind": "cfg", "idx": idx}
    # fault enumeration on base configurations with a rich trace
    R = random.Random(f"{ctx.seed}:C10:faults")
    bases = []
    n_bases = 48 if ctx.quick else 480
    while len(bases) < n_bases:
        f = decode(R.randrange(TOTAL))
        if len(bases) % 3 == 0:
            f.update(fetch=1, remote=1)
        f.update(cfg_commit=1, cfg_tag=R.choice([0, 1, 1, 2]), cfg_push=R.choice([0, 1, 2]), cli_commit=R.choice([0, 1]), cli_tag=R.choice([0, 0, 1]),
                 cli_push=R.choice([0, 0, 1]), dirty=0, dry=0, pre=R.choice([0, 1]), post=R.choice([0, 1]))
        if len(bases) % 4 == 1:
            f["odd_name"] = 1
        bases.append(f)
    for k, f in enumerate(bases):
        if ctx.mine(k):
            yield {"kind": "faults", "f": f}
    # a hook that fails by being KILLED (out of memory, a CI timeout): a failure like any other
    k = 0
    for which in ("pre", "post"):
        for vcs in (0, 1):
            for push in (1, 2):
                f = decode(0)
                f.update(cfg_commit=1, cfg_tag=1, cfg_push=push, remote=1, tagmsg=1, fetch=0, vcs=vcs, pre=1, post=1, hook_killed=1)
                f[which] = 2
                if ctx.mine(k):
                    yield {"kind": "killed-hook", "f": f}
                k += 1
    # hooks that succeed but are talkative: the pipeline has to get past them (bounded progress; a run that does not
    # finish is examined for a wait-for cycle between bumpver and the hook instead of being judged by the clock)
    k = 0
    for which in ("pre", "post"):
        for nbytes in (0, 4096, 70000, 300000):
            for vcs in (0, 1):
                if ctx.mine(k):
                    yield {"kind": "noisy-hook", "which": which, "nbytes": nbytes, "vcs": vcs}
                k += 1


def effective(f):
    """R7 part 1: effective settings or rejection reason"""
    c_commit, c_tag, c_push = bool(f["cfg_commit"]), f["cfg_tag"] == 1, f["cfg_push"] == 1
    if (c_tag or c_push) and not c_commit:
        return None, "config:tag/push without commit"
    tri = {0: None, 1: True, 2: False}
    cc, ct, cp = tri[f["cli_commit"]], tri[f["cli_tag"]], tri[f["cli_push"]]
    if cc is False and (ct or cp):
        return None, "cli:--no-commit with --tag-commit/--push"
    commit = c_commit if cc is None else cc
    if not commit and (ct or cp):
        return None, "cli:--tag-commit/--push without commit"
    tag = c_tag if ct is None else ct
    push = c_push if cp is None else cp
    return {"commit": commit, "tag": tag, "push": push}, None


def expected(f, n_files):
    """R7: (rejected?, expected mutating sequence, expected exit class, files_rewritten?)"""
    eff, why = effective(f)
    if eff is None:
        return {"rejected": why, "seq": [], "exit_ok": False, "rewritten": False}
    if f["dry"]:
        return {"rejected": None, "seq": [], "exit_ok": True, "rewritten": False}
    if not eff["commit"]:
        return {"rejected": None, "seq": [], "exit_ok": True, "rewritten": True}
    if f["dirty"] and (not f["allow_dirty"] or extras(f)["dirty_file"] != "other.txt"):
        return {"rejected": None, "seq": [], "exit_ok": False, "rewritten": False}
    seq = []
    if f["pre"]:
        seq.append("pre-hook")
        if f["pre"] == 2:
            return {"rejected": None, "seq": seq, "exit_ok": False, "rewritten": True}
    seq += ["add"] * n_files
    seq.append("commit")
    if f["post"]:
        seq.append("post-hook")
        if f["post"] == 2:
            return {"rejected": None, "seq": seq, "exit_ok": False, "rewritten": True}
    if eff["tag"]:
        seq.append("tag")
    if eff["push"] and f["remote"]:
        seq.append("push")
    return {"rejected": None, "seq": seq, "exit_ok": True, "rewritten": True}


ORDER = {"pre-hook": 0, "add": 1, "commit": 2, "post-hook": 3, "tag": 4, "push": 5}


def extras(f):
    """two variations outside the enumerated product, derived deterministically from the configuration:
    hooks given on the command line instead of the config; a VCS tag newer than the config version"""
    idx = encode(f)
    return {"hooks_via_cli": (idx // 7) % 2 == 1, "newer_tag": (idx // 11) % 3 == 0,
            "how": ("patch", "set-version", "branch-scope")[(idx // 13) % 3],
            # which file the dirty state concerns: an unrelated one, or one that carries a version pattern
            # (then even --allow-dirty must not let the run proceed)
            "dirty_file": ("other.txt", "src/b.py", "other.txt", "a.txt")[(idx // 5) % 4]}


def versions(f):
    ex = extras(f)
    if ex["newer_tag"]:
        return ("1.2.5", "1.2.6")
    if ex["how"] == "branch-scope":
        return ("1.0.0", "1.0.1")   # branch scope starts from the greatest reachable tag, not from the config
    return ("1.2.3", "1.2.4")


def afile(f):
    """name of the first pattern file; fault bases also use a name that reads like a VCS message"""
    return "already tracked!.txt" if f.get("odd_name") else "a.txt"


def build(f):
    vcs = "hg" if f["vcs"] else "git"
    ex = extras(f)
    c_commit = bool(f["cfg_commit"])
    lines = ["[bumpver]", 'current_version = "1.2.3"', 'version_pattern = "MAJOR.MINOR.PATCH"',
             'commit_message = "bump {old_version} -> {new_version}"',
             'tag_message = "%s"' % ("" if not f["tagmsg"] else "release {new_version}"),
             f"commit = {str(c_commit).lower()}"]
    for key in ("tag", "push"):
        if f["cfg_" + key]:
            lines.append(f"{key} = {'true' if f['cfg_' + key] == 1 else 'false'}")
    if f["pre"] and not ex["hooks_via_cli"]:
        lines.append('pre_commit_hook = "hook-pre"')
    if f["post"] and not ex["hooks_via_cli"]:
        lines.append('post_commit_hook = "hook-post"')
    lines += ["", "[bumpver.file_patterns]", '"bumpver.toml" = [\'current_version = "{version}"\']',
              f'"{afile(f)}" = ["version {{version}}"]', '"src/b.py" = [\'__version__ = "{version}"\']', ""]
    files = {"bumpver.toml": "\n".join(lines), afile(f): "hello\nversion 1.2.3\nbye\n",
             "src/b.py": '# x\n__version__ = "1.2.3"\n', "other.txt": "unrelated\n"}
    # how the new version is requested: --patch, an explicit --set-version (uniqueness check over all tags),
    # or --patch with tag scope `branch` (uniqueness check too)
    how = ex["how"]
    if how == "set-version":
        args = ["update", "--set-version", versions(f)[1]]
    elif how == "branch-scope":
        args = ["update", "--patch", "--tag-scope", "branch"]
    else:
        args = ["update", "--patch"]
    args.append("--fetch" if f["fetch"] else "--no-fetch")
    for name, flag in (("cli_commit", "commit"), ("cli_tag", "tag-commit"), ("cli_push", "push")):
        if f[name] == 1:
            args.append("--" + flag)
        elif f[name] == 2:
            args.append("--no-" + flag)
    if f["allow_dirty"]:
        args.append("--allow-dirty")
    if f["dry"]:
        args.append("--dry")
    if ex["hooks_via_cli"]:
        if f["pre"]:
            args += ["--pre-commit-hook", "hook-pre"]
        if f["post"]:
            args += ["--post-commit-hook", "hook-post"]
    return vcs, files, args


def setup_fake(d, f, vcs):
    fake = harness.FakeVCS(d, vcs)
    if f["pre"]:
        fake.hook("pre")
    if f["post"]:
        fake.hook("post")
    fails = []
    if f["pre"] == 2:
        fails.append("hook-pre")
    if f["post"] == 2:
        fails.append("hook-post")
    if fails and f.get("hook_killed"):
        fake.kill_match(fails)      # the failing hook dies from a signal instead of exiting with a status
    elif fails:
        fake.fail_match(fails)
    if vcs == "git":
        fake.set_out("status", f" M {extras(f)['dirty_file']}\n" if f["dirty"] else "")
        fake.set_out("branch", "*origin\n feature\n" if f["remote"] else "*\n feature\n")
        if f["remote"]:
            fake.set_out("remote", "git@example.org:x/y.git\n")
        fake.set_out("tag-list", "0.9.0\n1.0.0\nnot-a-version\n" + ("1.2.5\n" if extras(f)["newer_tag"] else ""))
        fake.set_out("tag-merged", "0.9.0\n1.0.0\n" + ("1.2.5\n" if extras(f)["newer_tag"] else ""))
    else:
        fake.set_out("status", f"M {extras(f)['dirty_file']}\n" if f["dirty"] else "")
        if f["remote"]:
            fake.set_out("remote", "default = https://example.org/repo\n")
        else:
            fake.set_out("remote", "")
        fake.set_out("tag-list", "tip 5:abcdef\n1.0.0 3:123456\n" + ("1.2.5 7:aaaaaa\n" if extras(f)["newer_tag"] else ""))
        fake.set_out("tag-merged", "1.0.0\n" + ("1.2.5\n" if extras(f)["newer_tag"] else ""))
    return fake


def check_trace(ctx, f, evs, res, exp, init_sums, final_sums, n_files, tag, fault_at=None, tag_new=True):
    """The trace specification. `evs`: event log; returns list of (class, msg)."""
    problems = []
    # the versions the run announced (Old/New Version records); without a fault they must be the model's
    vers = (res.record_value("Old Version: "), res.record_value("New Version: "))
    if fault_at is None and vers != (None, None) and vers != versions(f):
        problems.append(("announced_versions_differ_from_model", f"{vers} vs {versions(f)}"))
    muts = [(harness.mutating_kind(e), e) for e in evs]
    seq = [(k, e) for k, e in muts if k and k != "fetch"]
    kinds = [k for k, _ in seq]
    eff, _why = effective(f)
    # (a) --no-fetch never fetches
    if not f["fetch"] and any(k == "fetch" for k, _ in muts):
        problems.append(("fetch_under_no_fetch", "fetch command issued although --no-fetch was given"))
    # (b) dry / rejected: nothing mutating, no hook
    if (f["dry"] or eff is None) and kinds:
        problems.append(("mutation_under_dry_or_rejected", f"{kinds}"))
    if tag_new is not None and [e for k, e in seq if k == "tag"]:
        ta = [e for k, e in seq if k == "tag"][0]["argv"]
        if vers[1] not in ta:
            problems.append(("tag_name_wrong", f"{ta}"))
        # an empty configured tag message means a lightweight tag (no message argument at all); otherwise the
        # message is the rendered template, as one argument
        if not f["tagmsg"]:
            if "--message" in ta or "--annotate" in ta or len(ta) != 2:
                problems.append(("empty_tag_message_not_lightweight", f"{ta}"))
        elif vers[1] is not None:
            want = f"release {vers[1]}"
            if "--message" not in ta or ta[ta.index("--message") + 1] != want:
                problems.append(("tag_message_wrong", f"{ta}, expected message {want!r}"))
    if eff is None:
        non_probe = [e for e in evs if not (e["argv"] and e["argv"][0] in ("rev-parse", "root"))]
        if non_probe:
            problems.append(("contradiction_rejected_late", f"VCS/hook activity before the rejection: "
                                                            f"{[(e['name'], e['argv'][:2]) for e in non_probe][:4]}"))
    # (c) only enabled steps, in pipeline order, nothing after a failed step
    if eff is not None and not f["dry"]:
        allowed = {"add", "commit"} if eff["commit"] else set()
        if eff["commit"] and f["pre"]:
            allowed.add("pre-hook")
        if eff["commit"] and f["post"]:
            allowed.add("post-hook")
        if eff["commit"] and eff["tag"]:
            allowed.add("tag")
        if eff["commit"] and eff["push"]:
            allowed.add("push")
        for k in kinds:
            if k not in allowed:
                problems.append(("step_not_enabled", f"{k} although the configuration does not enable it (trace {kinds})"))
                break
        if [ORDER[k] for k in kinds] != sorted(ORDER[k] for k in kinds):
            problems.append(("steps_out_of_order", f"{kinds}"))
        failed = [i for i, (k, e) in enumerate(seq) if e["exit"] != 0]
        if failed and failed[0] != len(seq) - 1:
            k0 = kinds[failed[0]]
            tolerated = (tag == "hg" and k0 == "add")
            if not tolerated:
                problems.append(("step_after_failed_step", f"{kinds[failed[0]]} failed but {kinds[failed[0] + 1:]} followed"))
        if failed and res.exit_code == 0:
            problems.append(("exit_0_after_failed_step", f"{kinds[failed[0]]} failed, exit code 0"))
        if ("tag" in kinds or "push" in kinds) and not any(k == "commit" and e["exit"] == 0 for k, e in seq):
            problems.append(("tag_or_push_without_commit", f"{kinds}"))
        if f["dirty"] and (not f["allow_dirty"] or extras(f)["dirty_file"] != "other.txt") and eff["commit"] and kinds:
            problems.append(("mutation_despite_dirty_tree", f"{kinds} (dirty file: {extras(f)['dirty_file']})"))
        if f["dirty"] and f["allow_dirty"] and extras(f)["dirty_file"] != "other.txt" and eff["commit"]:
            ctx.count("dirty_pattern_file_with_allow_dirty")
    # (d) hook environment
    for k, e in seq:
        if k in ("pre-hook", "post-hook"):
            ctx.count("hook_env_checked")
            if (e["env"].get("BUMPVER_OLD_VERSION"), e["env"].get("BUMPVER_NEW_VERSION")) != vers:
                problems.append(("hook_env_wrong", f"{k}: {e['env']}"))
    # (e) order against file writes (checksums at the moment of each call)
    for k, e in muts:
        sums = {p: h for p, h in e["files"].items() if not p.startswith("hook-")}
        if e["argv"] and e["argv"][0] == "status":
            ctx.count("order_by_checksum_checked")
            if sums != init_sums:
                problems.append(("file_written_before_dirty_check", f"files at the time of `status`: {sums}"))
        if k in ("pre-hook", "add", "commit", "post-hook", "tag", "push"):
            ctx.count("order_by_checksum_checked")
            if sums != final_sums or sums == init_sums:
                problems.append(("vcs_step_before_files_rewritten", f"{k} ran while the files were {sums}"))
                break
    # (f) completeness and exit code when no fault was injected
    if fault_at is None:
        want = exp["seq"]
        if sorted(kinds, key=lambda k: ORDER[k]) != want or len(kinds) != len(want):
            problems.append(("trace_differs_from_model", f"observed {kinds}, model allows {want}"))
        if (res.exit_code == 0) != exp["exit_ok"]:
            problems.append(("exit_code_differs_from_model", f"exit {res.exit_code}, model expects "
                                                             f"{'0' if exp['exit_ok'] else 'non-zero'} ({exp['rejected'] or ''})"))
        if "add" in kinds:
            added = sorted(e["argv"][-1] for k, e in seq if k == "add")
            if added != sorted(["bumpver.toml", afile(f), "src/b.py"]):
                problems.append(("staged_paths_wrong", f"{added}"))
    return problems


def run_once(ctx, f, fault_nth=None):
    vcs, files, args = build(f)
    d = harness.new_project(files)
    fake = setup_fake(d, f, vcs)
    try:
        if fault_nth is not None:
            fake.fail_nth(fault_nth)
        init_sums = {p: harness.fnv64(v.encode()) for p, v in files.items()}
        env = dict(fake.env)
        if (encode(f) // 17) % 3 == 0:
            # the parent environment already carries (stale) BUMPVER_* variables, e.g. a nested release
            env.update(BUMPVER_OLD_VERSION="9.9.8", BUMPVER_NEW_VERSION="9.9.9")
        res = harness.invoke(args, cwd=d, env=env)
        after = harness.snapshot(d)
        final_sums = {p: harness.fnv64(v) for p, v in after.items() if not p.startswith("hook-")}
        evs = fake.events()
        exp = expected(f, 3)
        problems = check_trace(ctx, f, evs, res, exp, init_sums, final_sums, 3, vcs, fault_at=fault_nth)
        rewritten = final_sums != init_sums
        if fault_nth is None and rewritten != exp["rewritten"]:
            problems.append(("files_rewritten_differs_from_model", f"rewritten={rewritten}, model {exp['rewritten']}"))
        if res.crash and fault_nth is None:
            problems.append(("crash", res.crash[:300]))
        return res, evs, exp, problems, args
    finally:
        harness.rm_dir(d)
        fake.destroy()


def run_noisy_hook(ctx, case):
    vcs = "hg" if case["vcs"] else "git"
    which = case["which"]
    lines = ["[bumpver]", 'current_version = "1.2.3"', 'version_pattern = "MAJOR.MINOR.PATCH"', "commit = true", "tag = true",
             "push = false", f'{which}_commit_hook = "hook-{which}"', "", "[bumpver.file_patterns]",
             '"bumpver.toml" = [\'current_version = "{version}"\']', '"a.txt" = ["version {version}"]', ""]
    d = harness.new_project({"bumpver.toml": "\n".join(lines), "a.txt": "hello\nversion 1.2.3\n"})
    fake = harness.FakeVCS(d, vcs)
    try:
        fake.hook(which)
        fake.set_out("status", "")
        fake.hook_noise(case["nbytes"])
        out = harness.run_cli_watch_for_deadlock(["update", "--patch", "--no-fetch"], cwd=d, env=fake.env)
        kinds = [m for m in map(harness.mutating_kind, fake.events()) if m]
        ctx.count("noisy_hook_runs")
        ctx.evaluated(("noisy-hook", which, case["nbytes"], vcs), sample={"hook": which, "stderr_bytes": case["nbytes"], "outcome": out[0], "trace": kinds})
        if out[0] == "deadlock":
            ctx.violation("hook_output_deadlock", f"{which}-commit hook writing {case['nbytes']} bytes to stderr ({vcs}): {out[1]}; "
                          f"steps so far: {kinds}", case=case)
        elif out[0] == "slow":
            ctx.count("noisy_hook_runs_inconclusive(slow)")
        else:
            want = (["pre-hook"] if which == "pre" else []) + ["add", "add", "commit"] + (["post-hook"] if which == "post" else []) + ["tag"]
            if out[1] != 0 or kinds != want:
                ctx.violation("other:noisy_hook_changes_the_pipeline", f"{which}-commit hook writing {case['nbytes']} bytes "
                              f"({vcs}): exit {out[1]}, steps {kinds}, expected {want}; stderr tail {out[3][-200:]!r}", case=case)
    finally:
        harness.rm_dir(d)
        fake.destroy()


def run_case(ctx, case):
    if case["kind"] == "noisy-hook":
        return run_noisy_hook(ctx, case)
    if case["kind"] in ("cfg", "killed-hook"):
        f = decode(case["idx"]) if case["kind"] == "cfg" else case["f"]
        if case["kind"] == "killed-hook":
            ctx.count("hooks_killed_by_a_signal")
            case = dict(case, idx=encode(f))
        res, evs, exp, problems, args = run_once(ctx, f)
        ctx.count("runs")
        ctx.count("vcs:" + ("hg" if f["vcs"] else "git"))
        if f["dry"]:
            ctx.count("dry_runs")
        if not f["fetch"]:
            ctx.count("no_fetch_runs")
        if exp["rejected"]:
            ctx.count("contradictions_rejected")
        if exp["seq"]:
            ctx.count("runs_with_mutating_trace")
        ctx.evaluated(("cfg", case["idx"]) if exp["seq"] else None,
                      sample={"factors": f, "argv": args, "expected_trace": exp["seq"], "exit": res.exit_code,
                              "observed": [harness.mutating_kind(e) or "(" + " ".join(e["argv"][:2]) + ")" for e in evs]})
        for cls, msg in problems:
            ctx.violation("other:" + cls, f"{msg} | factors={f} argv={args}", case=case,
                          observed={"res": res.brief(), "events": [(e["name"], e["argv"], e["exit"]) for e in evs]})
        return
    # fault enumeration: every logged invocation of the clean run fails in turn
    f = case["f"]
    res0, evs0, exp0, problems0, args = run_once(ctx, f)
    for cls, msg in problems0:
        ctx.violation("other:" + cls, f"{msg} | factors={f}", case={"kind": "cfg", "idx": encode(f)})
    for k in range(1, len(evs0) + 1):
        res, evs, exp, problems, args = run_once(ctx, f, fault_nth=k)
        ctx.count("fault_runs")
        failed = evs[k - 1] if len(evs) >= k else None
        kind = harness.mutating_kind(failed) if failed else None
        label = kind or ("query:" + " ".join(failed["argv"][:2]) if failed else "none")
        ctx.count("failed_step:" + label)
        ctx.evaluated(("fault", label, k), sample={"factors": f, "failed_call": k, "failed": label,
                                                   "observed": [harness.mutating_kind(e) for e in evs]})
        for cls, msg in problems:
            ctx.violation("other:fault:" + cls, f"{k}-th call ({label}) made to fail: {msg} | factors={f} argv={args}",
                          case={"kind": "faults", "f": f},
                          observed={"res": res.brief(), "events": [(e["name"], e["argv"], e["exit"]) for e in evs]})
        if failed and failed["argv"] and failed["argv"][0] in ("fetch", "pull", "tag", "tags", "log") and kind in (None, "fetch") \
                and res.exit_code == 0:
            vers = (res.record_value("Old Version: "), res.record_value("New Version: "))
            if vers != (None, None) and vers != versions(f):
                ctx.violation("other:fault:start_version_changes_when_tag_query_fails",
                              f"{k}-th call ({label}) made to fail: update exits 0 and announces {vers}, the tags on disk say "
                              f"{versions(f)} | factors={f} argv={args}", case={"kind": "faults", "f": f})
        if f.get("odd_name") and kind == "add" and failed["argv"][-1] == afile(f):
            ctx.count("failed_add_of_a_file_whose_name_reads_like_a_vcs_message")
        if kind in ("add", "commit", "tag", "push", "pre-hook", "post-hook") and res.exit_code == 0:
            if True:
                ctx.violation("other:fault:exit_0_after_failed_step", f"{label} failed but exit 0 | factors={f}",
                              case={"kind": "faults", "f": f})


def encode(f):
    idx = 0
    mult = 1
    for (name, n) in FACTORS:
        idx += f[name] * mult
        mult *= n
    return idx

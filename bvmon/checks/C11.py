"""C11 - uncommitted changes are never swept into the bump commit (real git).

Every status git can report for a file is produced with a REAL git in a temporary repository, for a file that
carries a version pattern and for an unrelated one, with and without --allow-dirty. Monitors: exit code, byte
snapshot, `git rev-list --count`, `git show --name-only HEAD`, `git status --porcelain` before/after.
"""
import itertools
import os
import random
import subprocess

from bvmon import harness

STATUSES = ["clean", " M", "M ", "MM", "A ", "AM", " D", "D ", "R ", "R>", "RM", "RM>", "RD>", "DR>", "??"]
# only for the unrelated role: a git submodule whose pointer moved (unstaged / staged)
SUB_STATUSES = ["sub: M", "sub:M ", "sub:??"]      # new commit in the submodule (unstaged / staged); only an untracked file in it
ROLES = ["pattern", "unrelated"]
# hg: M modified, A added, R removed, ! missing, ? not tracked
HG_STATUSES = ["clean", "M", "A", "R", "!", "?"]

SPEC = dict(
    level="exploration",
    rule=("EXHAUSTIVE product of the statuses real git reports {clean, ' M', 'M ', 'MM', 'A ', 'AM', ' D', 'D ', "
          "'R ' (renamed away), 'R ' (renamed onto the name), 'RM' (both directions), 'RD', '??'} x {file with a version pattern, unrelated file} x "
          "--allow-dirty on/off (44 cases) + all pairs (pattern-file status, unrelated-file status), the single-status product again in repositories whose .git is a FILE (linked worktree, --separate-git-dir), repeated over "
          "layouts (file in a sub-directory, different patterns): 1x quick, 40x thorough; non-trivial+distinct = "
          "distinct (status, role, allow-dirty, expected outcome, layout) tuples"),
    assumptions=["status text is produced by the installed git 2.39; staged unrelated changes under --allow-dirty are "
                 "committed by `git commit` by design and are not asserted",
                 "a run is expected to proceed only when no pattern file is dirty (and the tree is clean or "
                 "--allow-dirty is given)"],
    required=["submodule_cases", "untracked_file_inside_a_submodule", "untracked_pattern_file_in_untracked_directory", "quoted_names_in_porcelain_output", "dot_git_is_a_file_cases", "hg_status_cases", "hg_names_with_edge_blanks_or_quotes", "aborts_checked", "proceeds_checked", "pattern_file_dirty_with_allow_dirty", "untracked_unrelated_not_blocking",
              "bump_commit_content_checked"],
    anchors=[("vcs", "assert_not_dirty"), ("cli", "_update")],
    exhaustive={"quick": True, "thorough": True},
    exhaustive_note="the status x role x allow-dirty product and all status pairs are enumerated completely",
)

LAYOUTS = [
    {"pfile": "a.txt", "ufile": "other.txt", "vp": "MAJOR.MINOR.PATCH", "cur": "1.2.3", "args": ["--patch"]},
    {"pfile": "src/pkg/__init__.py", "ufile": "docs/notes.md", "vp": "vYYYY.BUILD[-TAG]", "cur": "v2020.1001-beta",
     "args": ["--date", "2021-02-03"]},
    {"pfile": "README.md", "ufile": "src/other.py", "vp": "MAJOR.MINOR[.PATCH]", "cur": "1.2", "args": ["--minor"]},
    # the config may spell the path differently from what git prints (./x, a//b); it is still the same file
    {"pfile": "a.txt", "cfg_spelling": "./a.txt", "ufile": "other.txt", "vp": "MAJOR.MINOR.PATCH", "cur": "1.2.3",
     "args": ["--patch"]},
    {"pfile": "src/pkg/version.py", "cfg_spelling": "./src//pkg/version.py", "ufile": "docs/notes.md",
     "vp": "MAJOR.MINOR.PATCH", "cur": "0.9.9", "args": ["--minor"]},
    # names git prints QUOTED in its porcelain output (space, non-ASCII, a double quote)
    {"pfile": "release notes.txt", "ufile": "other file.txt", "vp": "MAJOR.MINOR.PATCH", "cur": "1.2.3", "args": ["--patch"]},
    {"pfile": "docs/gr\u00fc\u00dfe.md", "ufile": "\u00fcbrig.txt", "vp": "MAJOR.MINOR.PATCH", "cur": "1.2.3", "args": ["--patch"]},
    # core.quotePath=false: git still quotes a name with a blank, but leaves the non-ASCII bytes as they are
    {"pfile": "gr\u00fcne version.txt", "ufile": "\u00fcbrige datei.txt", "vp": "MAJOR.MINOR.PATCH", "cur": "1.2.3", "args": ["--patch"],
     "git_config": [("core.quotePath", "false")]},
    # a spelling pathlib does not normalise
    {"pfile": "a.txt", "cfg_spelling": "docs/../a.txt", "ufile": "docs/notes.md", "vp": "MAJOR.MINOR.PATCH", "cur": "1.2.3",
     "args": ["--patch"], "extra_files": {"docs/keep.txt": "keep\n"}},
    # an unrelated file whose name is the pattern file's name plus a blank
    {"pfile": "README.md", "ufile": " README.md", "vp": "MAJOR.MINOR.PATCH", "cur": "1.2.3", "args": ["--patch"]},
    # a user setting that hides untracked files from `git status`
    {"pfile": "a.txt", "ufile": "other.txt", "vp": "MAJOR.MINOR.PATCH", "cur": "1.2.3", "args": ["--patch"],
     "git_config": [("status.showUntrackedFiles", "no")]},
    # a name that looks like git's rename notation
    {"pfile": "draft -> final.txt", "ufile": "x -> y.md", "vp": "MAJOR.MINOR.PATCH", "cur": "1.2.3", "args": ["--patch"]},
    # the unrelated file's name is a string prefix of the pattern file's path (README next to README.md)
    {"pfile": "README.md", "ufile": "README", "vp": "MAJOR.MINOR.PATCH", "cur": "1.2.3", "args": ["--patch"]},
    {"pfile": "src/pkg/version.py", "ufile": "src/pkg/ver", "vp": "MAJOR.MINOR.PATCH", "cur": "0.9.9", "args": ["--minor"]},
    # a name with brackets (a route file `pages/[id].tsx`): read as a glob the key matches nothing and bumpver falls back
    # to the literal path - spelled non-canonically it is still the same file
    {"pfile": "pages/[id].tsx", "cfg_spelling": "./pages/[id].tsx", "ufile": "pages/index.tsx", "vp": "MAJOR.MINOR.PATCH",
     "cur": "1.2.3", "args": ["--patch"]},
    # core.quotePath=false and a Unicode blank at the edge of a name: git prints the name raw and unquoted
    {"pfile": "notes.txt\u00a0", "ufile": "\u3000other.txt", "vp": "MAJOR.MINOR.PATCH", "cur": "1.2.3", "args": ["--patch"],
     "git_config": [("core.quotePath", "false")]},
    {"pfile": "README.md", "ufile": "README.md\u00a0", "vp": "MAJOR.MINOR.PATCH", "cur": "1.2.3", "args": ["--patch"],
     "git_config": [("core.quotePath", "false")]},
    {"pfile": "n[1].txt", "cfg_spelling": "docs/../n[1].txt", "ufile": "docs/notes.md", "vp": "MAJOR.MINOR.PATCH", "cur": "1.2.3",
     "args": ["--patch"], "extra_files": {"docs/keep.txt": "keep\n"}},
]


def cases(ctx):
    reps = 1 if ctx.quick else 40
    k = 0
    for rep in range(reps):
        for li in range(len(LAYOUTS)):
            if rep > 0 and li != rep % len(LAYOUTS):
                continue
            if rep == 0 and li in (1, 2) and ctx.quick:
                # quick: the full product on layouts 0, 3..17; layouts 1, 2 only in thorough
                continue
            for st in STATUSES:
                for role in ROLES:
                    for allow in (False, True):
                        if ctx.mine(k):
                            yield {"layout": li, "p_status": st if role == "pattern" else "clean",
                                   "u_status": st if role == "unrelated" else "clean", "allow": allow, "rep": rep}
                        k += 1
            if li in (0, 1):
                # the same product where `.git` is a FILE: a linked worktree (`git worktree add`) and a repository
                # created with --separate-git-dir
                for repo in ("linked-worktree", "separate-git-dir"):
                    for st in STATUSES:
                        for role in ROLES:
                            for allow in (False, True):
                                if ctx.mine(k):
                                    yield {"layout": li, "p_status": st if role == "pattern" else "clean", "repo": repo,
                                           "u_status": st if role == "unrelated" else "clean", "allow": allow, "rep": rep}
                                k += 1
            if li == 0:
                # the hg command set: status letters as `hg status -umard` prints them, served by the fake hg
                for st in HG_STATUSES:
                    for role in ROLES:
                        for allow in (False, True):
                            for names in range(len(HG_NAMES)):
                                if ctx.mine(k):
                                    yield {"kind": "hg", "status": st, "role": role, "allow": allow, "rep": rep, "names": names}
                                k += 1
            for st in SUB_STATUSES:
                for allow in (False, True):
                    for ps in ("clean", " M"):
                        if ctx.mine(k):
                            yield {"layout": li, "p_status": ps, "u_status": st, "allow": allow, "rep": rep}
                        k += 1
            for ps, us in itertools.product(STATUSES[1:], STATUSES[1:]):
                for allow in (False, True):
                    if ctx.mine(k):
                        yield {"layout": li, "p_status": ps, "u_status": us, "allow": allow, "rep": rep}
                    k += 1


GIT_ENV = {"GIT_CONFIG_GLOBAL": "/dev/null", "GIT_CONFIG_SYSTEM": "/dev/null", "GIT_AUTHOR_NAME": "t",
           "GIT_AUTHOR_EMAIL": "t@e", "GIT_COMMITTER_NAME": "t", "GIT_COMMITTER_EMAIL": "t@e"}


def git(d, *a, ok=True):
    e = dict(os.environ, HOME=d, **GIT_ENV)
    p = subprocess.run(["git", *a], cwd=d, env=e, capture_output=True, timeout=60)
    if ok and p.returncode:
        raise harness.Skip("git-setup-failed:" + p.stderr.decode("utf-8", "replace")[:100])
    return p.stdout.decode()


def write(d, rel, text):
    p = os.path.join(d, rel)
    os.makedirs(os.path.dirname(p), exist_ok=True)
    with open(p, "w") as f:
        f.write(text)


def make_status(d, rel, status, content):
    """Bring file `rel` (committed with `content`, unless the status implies otherwise) into `status`."""
    moved = rel + ".moved"
    if status == "clean":
        return
    if status == " M":
        write(d, rel, content + "local edit\n")
    elif status == "M ":
        write(d, rel, content + "staged edit\n")
        git(d, "add", rel)
    elif status == "MM":
        write(d, rel, content + "staged edit\n")
        git(d, "add", rel)
        write(d, rel, content + "staged edit\nlocal edit\n")
    elif status == " D":
        os.unlink(os.path.join(d, rel))
    elif status == "D ":
        git(d, "rm", "-q", rel)
    elif status == "R ":
        git(d, "mv", rel, moved)
    elif status == "RM":
        git(d, "mv", rel, moved)
        write(d, moved, content + "local edit after the rename\n")
    # 'A ', 'AM', '??', 'R>' are prepared before the initial commit (see run_case)


# (pattern file, unrelated file): hg prints names verbatim - blanks at the edges and quote characters are part of the name
HG_NAMES = [("a.txt", "other.txt"), (" notes.txt", "other.txt "), ("trail.txt ", " other.txt"), ('"q.txt"', '"other"'),
            ("notes.txt", " notes.txt")]


def run_hg(ctx, case):
    """Mercurial is not installed: the status text is served by the fake hg (format of `hg status -umard`:
    one status letter, a space, the path); add/commit are only recorded."""
    st, role, allow = case["status"], case["role"], case["allow"]
    pfile, ufile = HG_NAMES[case.get("names", 0)]
    if case.get("names"):
        ctx.count("hg_names_with_edge_blanks_or_quotes")
    cfg = ('[bumpver]\ncurrent_version = "1.2.3"\nversion_pattern = "MAJOR.MINOR.PATCH"\ncommit = true\ntag = false\n'
           'push = false\n\n[bumpver.file_patterns]\n"bumpver.toml" = [\'current_version = "{version}"\']\n'
           + "'" + pfile + "'" + ' = ["version {version}"]\n')
    d = harness.new_project({"bumpver.toml": cfg, pfile: "intro\nversion 1.2.3\n", ufile: "unrelated\n"})
    fake = harness.FakeVCS(d, "hg")
    try:
        target = pfile if role == "pattern" else ufile
        fake.set_out("status", "" if st == "clean" else f"{st} {target}\n")
        before = harness.snapshot(d)
        args = ["update", "--no-fetch", "--patch"] + (["--allow-dirty"] if allow else [])
        res = harness.invoke(args, cwd=d, env=fake.env)
        after = harness.snapshot(d)
        muts = [m for m in map(harness.mutating_kind, fake.events()) if m]
        if st == "clean":
            expect = "proceed"
        elif role == "pattern":
            expect = "abort"
        elif st == "?":
            expect = "proceed"        # untracked files that carry no pattern never block an update
        else:
            expect = "proceed" if allow else "abort"
        ctx.count("hg_status_cases")
        ctx.evaluated(("hg", st, role, allow, expect, case.get("names", 0)), sample={"status_line": f"{st} {target}", "argv": args, "expected": expect})
        desc = {"hg_status": f"{st} {target}", "argv": args, "expected": expect, "res": res.brief(), "vcs_calls": muts}
        changed = harness.diff_snapshots(before, after)
        if expect == "abort":
            if res.exit_code == 0 or changed or "commit" in muts:
                ctx.violation("other:dirty_tree_not_respected", f"hg: status {st!r} of the {role} file, allow-dirty={allow}: "
                              f"expected abort before any change, got exit {res.exit_code}, changed {changed}, calls {muts}",
                              case=case, observed=desc)
        elif res.exit_code != 0 or "commit" not in muts:
            ctx.violation("other:update_blocked_unexpectedly", f"hg: status {st!r} of the {role} file, allow-dirty={allow}: "
                          f"expected the update to proceed, got exit {res.exit_code}: {res.errors()[-2:]}", case=case,
                          observed=desc)
    finally:
        harness.rm_dir(d)
        fake.destroy()


def run_case(ctx, case):
    if case.get("kind") == "hg":
        return run_hg(ctx, case)
    lay = LAYOUTS[case["layout"]]
    ps, us, allow = case["p_status"], case["u_status"], case["allow"]
    pfile, ufile = lay["pfile"], lay["ufile"]
    pcontent = f"intro\nversion {lay['cur']}\n"
    ucontent = "unrelated\n"
    cfg = (f'[bumpver]\ncurrent_version = "{lay["cur"]}"\nversion_pattern = "{lay["vp"]}"\ncommit = true\ntag = false\n'
           f'push = false\n\n[bumpver.file_patterns]\n"bumpver.toml" = [\'current_version = "{{version}}"\']\n'
           f'"{lay.get("cfg_spelling", pfile)}" = ["version {{version}}"]\n')
    d = harness.new_dir("g")
    repo = case.get("repo", "plain")
    try:
        if repo == "linked-worktree":
            main = d + ".main"
            os.makedirs(main)
            git(main, "init", "-q", "-b", "main")
            git(main, "commit", "-q", "--allow-empty", "-m", "root")
            os.rmdir(d)
            git(main, "worktree", "add", "-q", "-b", "work", d)
        elif repo == "separate-git-dir":
            git(d, "init", "-q", "-b", "main", "--separate-git-dir", d + ".gitdir")
        else:
            git(d, "init", "-q", "-b", "main")
        for k_, v_ in lay.get("git_config", []):
            git(d, "config", k_, v_)
        if repo != "plain":
            if not os.path.isfile(os.path.join(d, ".git")):
                raise harness.Skip("scenario-not-reproduced:.git-is-not-a-file")
            ctx.count("dot_git_is_a_file_cases")
        if us.startswith("sub:"):
            # a library repository added as submodule vendor/lib
            lib = d + ".lib"
            os.makedirs(lib)
            git(lib, "init", "-q", "-b", "main")
            write(lib, "lib.txt", "lib\n")
            git(lib, "add", "-A")
            git(lib, "commit", "-q", "-m", "lib 1")
            git(d, "-c", "protocol.file.allow=always", "submodule", "add", "-q", lib, "vendor/lib")
            ufile = "vendor/lib"
        write(d, "bumpver.toml", cfg)
        write(d, "keep.txt", "keep\n")
        for rel_, text_ in lay.get("extra_files", {}).items():
            write(d, rel_, text_)
        late = {}   # files that must not be part of the initial commit
        for rel, st, content in ((pfile, ps, pcontent), (ufile, us, ucontent)):
            if st.startswith("sub:"):
                continue
            if st in ("A ", "AM", "??"):
                late[rel] = (st, content)
            elif st in ("R>", "RM>", "RD>"):
                write(d, rel + ".orig", content)   # committed under another name, renamed onto `rel` later
                late[rel] = (st, content)
            elif st == "DR>":
                # `rel` is committed next to an identical twin; later `rel` is dropped from the index and marked
                # intent-to-add, the twin is deleted: git reports a rename in the WORK TREE column, `DR twin -> rel`
                write(d, rel, content)
                write(d, rel + ".twin", content)
                late[rel] = (st, content)
            else:
                write(d, rel, content)
        git(d, "add", "-A")
        git(d, "commit", "-q", "-m", "init")
        for rel, (st, content) in late.items():
            if st == "DR>":
                git(d, "rm", "-q", "--cached", rel)
                git(d, "add", "-N", rel)
                os.unlink(os.path.join(d, rel + ".twin"))
                write(d, rel, content + "local edit\n")
            elif st in ("R>", "RM>", "RD>"):
                git(d, "mv", rel + ".orig", rel)
                if st == "RM>":
                    write(d, rel, content + "local edit after the rename\n")
                elif st == "RD>":
                    os.unlink(os.path.join(d, rel))
            else:
                write(d, rel, content)
                if st in ("A ", "AM"):
                    git(d, "add", rel)
                if st == "AM":
                    write(d, rel, content + "local edit\n")
        make_status(d, pfile, ps, pcontent)
        if us == "sub:??":
            # nothing but an untracked, pattern-free file inside the submodule (git prints ` M vendor/lib` for it)
            write(os.path.join(d, "vendor/lib"), "scratch.txt", "scratch\n")
            ctx.count("untracked_file_inside_a_submodule")
        elif us.startswith("sub:"):
            sub = os.path.join(d, "vendor/lib")
            write(sub, "lib.txt", "lib\nmore\n")
            git(sub, "commit", "-q", "-am", "lib 2")
            if us == "sub:M ":
                git(d, "add", "vendor/lib")
        else:
            make_status(d, ufile, us, ucontent)
        porcelain = git(d, "status", "--porcelain", "--untracked-files=normal")
        entries = git(d, "status", "--porcelain", "-z", "--untracked-files=normal").split("\0")     # names unquoted
        want_codes = []
        for rel, st in ((pfile, ps), (ufile, us)):
            if st == "clean":
                continue
            code = {"R>": "R ", "RM>": "RM", "RD>": "RD", "DR>": "DR", "sub: M": " M", "sub:M ": "M ", "sub:??": " M"}.get(st, st)
            if st == "sub:??":
                continue        # (whether git lists the submodule at all is what the status options decide)
            hit = [ln for ln in entries if ln[:2] == code and rel in ln]
            if not hit and code == "??":
                # git reports a directory that holds only untracked files as ONE entry: `?? src/`
                hit = [ln for ln in entries if ln[:2] == "??" and ln[3:].endswith("/") and rel.startswith(ln[3:])]
                if hit and rel == pfile:
                    ctx.count("untracked_pattern_file_in_untracked_directory")
            if not hit:
                raise harness.Skip(f"scenario-not-reproduced:{st}")
        before = harness.snapshot(d)
        n_before = int(git(d, "rev-list", "--count", "HEAD"))
        p_dirty = ps != "clean"
        u_blocks = us not in ("clean", "??", "sub:??")      # untracked files that carry no pattern never block
        if p_dirty:
            expect = "abort"
        elif u_blocks and not allow:
            expect = "abort"
        else:
            expect = "proceed"
        args = ["update", "--no-fetch"] + lay["args"] + (["--allow-dirty"] if allow else [])
        res = harness.invoke(args, cwd=d, env=dict(GIT_ENV, HOME=d))
        after = harness.snapshot(d)
        n_after = int(git(d, "rev-list", "--count", "HEAD"))
        desc = {"porcelain_before": porcelain, "argv": args, "pattern_file": pfile, "unrelated_file": ufile,
                "expected": expect, "res": res.brief(), "porcelain_after": git(d, "status", "--porcelain")}
        ctx.evaluated((ps, us, allow, expect, case["layout"], repo), sample={k: desc[k] for k in ("porcelain_before", "argv", "expected")})
        if us.startswith("sub:"):
            ctx.count("submodule_cases")
        if p_dirty and allow:
            ctx.count("pattern_file_dirty_with_allow_dirty")
        if '"' in porcelain:
            ctx.count("quoted_names_in_porcelain_output")
        if us == "??" and ps == "clean":
            ctx.count("untracked_unrelated_not_blocking")
        if expect == "abort":
            ctx.count("aborts_checked")
            changed = harness.diff_snapshots(before, after)
            if res.exit_code == 0 or changed or n_after != n_before:
                cls = "other:dirty_tree_not_respected"
                if p_dirty and allow and (ps[0] == " " or ps in ("MM", "AM", "R>", "RM>", "RD>", "RM", "DR>")):
                    cls = "porcelain_status_column_misparsed"
                if p_dirty and allow and any(ln.endswith('"') and pfile.split("/")[-1][:3] in ln for ln in porcelain.splitlines()):
                    cls = "quoted_path_in_status_output"
                ctx.violation(cls, f"pattern file status {ps!r}, unrelated {us!r}, allow-dirty={allow}: expected abort "
                              f"before any change, got exit {res.exit_code}, changed files {changed}, commits "
                              f"{n_before}->{n_after}", case=case, observed=desc)
            return
        ctx.count("proceeds_checked")
        if res.exit_code != 0 or n_after != n_before + 1:
            ctx.violation("other:update_blocked_unexpectedly", f"pattern file clean, unrelated {us!r}, allow-dirty={allow}: "
                          f"expected the update to proceed, got exit {res.exit_code}, commits {n_before}->{n_after}: "
                          f"{res.errors()[-3:]}", case=case, observed=desc)
            return
        names = sorted(x for x in git(d, "show", "--name-only", "--format=", "-z", "HEAD").split("\0") if x.strip())
        configured = sorted(["bumpver.toml", pfile])
        if us in ("clean", " M", " D", "??", "sub: M"):
            ctx.count("bump_commit_content_checked")
            if names != configured:
                ctx.violation("other:bump_commit_contains_other_files", f"commit contains {names}, configured {configured} "
                              f"(unrelated file status {us!r})", case=case, observed=desc)
        elif not set(configured) <= set(names):
            ctx.violation("other:bump_commit_misses_configured_files", f"{names}", case=case, observed=desc)
    finally:
        harness.rm_dir(d)
        for suffix in (".lib", ".main", ".gitdir"):
            harness.rm_dir(d + suffix)

"""C09 - the current version is the greatest matching tag in scope.

Monitors: `bumpver show` (`Current Version:`) and the `Old Version:` record of `update --dry` against tag lists
served by the fake git (quick: 1.5k, thorough: 60k tag sets) and by real git repositories with two branches;
expected start version = R4 (packaging) maximum over the tags R1 recognises in full (and whose calendar date
exists), per scope. A traceback or non-zero exit of `show` caused by a tag is a violation.
"""
import datetime as dt
import os
import random
import subprocess

from packaging.version import InvalidVersion, Version

from bvmon import contracts, gen, harness, projects, ref, updates

PATTERNS = ["MAJOR.MINOR.PATCH", "MAJOR.MINOR[.PATCH]", "vYYYY.BUILD[-TAG]", "YYYY.0M.0D", "YYYY.MM.DD[.INC0]",
            "vMAJOR.MINOR.PATCH[PYTAGNUM]", "YYYY.MM[.PATCH]", "YY.0M.PATCH", "YYYY.JJJ.INC0", "vYYYY0M.BUILD[-TAG]",
            "MAJOR.MINOR.PATCH[-TAGNUM]", "YYYY.0M.0D.BUILD", "YYYY.00J[.PATCH]"]

SPEC = dict(
    level="exploration",
    rule=("tag sets of 0..30 tags: valid versions of the pattern, PEP 440-equal spellings, other schemes, junk, "
          "calendar-impossible dates (Feb 30, Apr 31), split into 'all branches' and 'reachable from HEAD'; x 3 scopes "
          "x --ignore-vcs-tag on/off x config version below/equal/above the tags; served by the fake git and built in "
          "real git repositories (tags on two branches); non-trivial+distinct = distinct (scope, #matching, "
          "non-matching kinds present, config relation, ties?, ignore, backend) tuples"),
    assumptions=["'matching' = R1 full match whose calendar parts denote an existing date; order = packaging",
                 "--ignore-vcs-tag is the documented opt-out: only 'tags do not influence the start' is asserted there",
                 "day-of-year 366 in a non-leap year is not generated (the statement does not say whether it matches)"],
    required=["tags_omitting_an_optional_calendar_part", "real_git_head_without_commit", "real_git_linked_work_tree", "fake_runs", "real_git_runs", "scope:default", "scope:global", "scope:branch", "ignore_runs",
              "impossible_date_tags", "tie_cases", "uniqueness_checked", "no_matching_tag_cases", "cli_tag_scope_overrides", "show_pep440_line_checked", "fetch_failure_cases", "legacy_pattern_runs", "line_separator_in_tag_name", "non_utf8_tag_names", "non_utf8_bytes_inside_a_version_text", "legacy_tags_with_month_or_day_zero", "real_git_column_ui_always", "unicode_blank_at_tag_edge",
              "planned_result_is_a_pep440_equal_tag_elsewhere", "fake_hg_runs", "hg_changesets_with_several_tags"],
    anchors=[("cli", "_parse_version_tags"), ("cli", "get_latest_vcs_version_tag"), ("cli", "_update_cfg_from_vcs"),
             ("vcs", "get_tags"), ("v2version", "is_valid"), ("v1version", "is_valid")],
)


def cases(ctx):
    R = ctx.rng
    for _ in range(ctx.size(1600, 60000)):
        yield {"kind": "fake", "seed": R.getrandbits(48)}
    for _ in range(ctx.size(240, 6000)):
        yield {"kind": "legacy", "seed": R.getrandbits(48)}
    for _ in range(ctx.size(160, 3000)):
        yield {"kind": "real", "seed": R.getrandbits(48)}
    k = 0
    for i in range(5):
        for scope in ("default", "global", "branch"):
            if ctx.mine(k):
                yield {"kind": "optcal", "i": i, "scope": scope}
            k += 1


def vkey(t):
    try:
        return Version(t)
    except InvalidVersion:
        return None


def matches(ast, t, tdy):
    raw = ref.parse(ast, t)
    if raw is None:
        return False
    try:
        ref.state_from_raw(raw, tdy)
    except (ValueError, OverflowError):
        return False
    return True


def gen_tags(R, p, ast, names, tdy, base_state):
    """list of (tag, kind)"""
    out = []
    n = R.choice([0, 0, 1, 2, 3, 5, 8, 12, 20, 30])
    has_md = any(x in names for x in ("MM", "0M")) and any(x in names for x in ("DD", "0D"))
    for _ in range(n):
        r = R.random()
        if r < 0.55:
            _d, st = gen.gen_state(R, names)
            if R.random() < 0.5:
                st.update({k: base_state[k] for k in ref.CAL_FIELDS})  # same date as config: compare other parts
            rs = gen.reachable(ast, st, tdy)
            if rs and not projects._week53(names, rs[1]) and vkey(rs[0]) is not None:
                out.append((rs[0], "valid"))
                if R.random() < 0.25:
                    t2 = ref.render_full(ast, rs[1])
                    if t2 != rs[0] and ref.parse(ast, t2) is not None and vkey(t2) == vkey(rs[0]):
                        out.append((t2, "pep-equal"))
        elif r < 0.7:
            out.append((R.choice(["1.2.3", "v2020.1001", "2021.05.06", "v1.0.0rc1", "20.4", "0.0.1", "2020.1", "3"]), "other-scheme"))
        elif r < 0.85:
            out.append((R.choice(["junk", "release-1", "latest", "v", "nightly-2021", "1.2.3.4.5", "x" * 40, "1..2",
                                  "ünï", "tag/with/slash", "v1.2.3-final-final"]), "junk"))
        elif r < 0.9:
            # ONE tag whose name contains a Unicode line separator followed by text that would be a (high) version:
            # it does not match the pattern and must not be read as two tags
            _d, st = gen.gen_state(R, names)
            st.update(major=777, year_y=2097, year_g=2097)
            rs = gen.reachable(ast, st, tdy)
            if rs and not projects._week53(names, rs[1]):
                out.append((R.choice(["nightly", "x", "rel"]) + R.choice(["\u2028", "\u2029", "\u0085"]) + rs[0], "line-separator-in-name"))
        elif r < 0.93:
            # a high version text with a Unicode blank glued to one end (legal in a ref name): not a full match
            _d, st = gen.gen_state(R, names)
            st.update(major=778, year_y=2096, year_g=2096)
            rs = gen.reachable(ast, st, tdy)
            if rs and not projects._week53(names, rs[1]):
                b = R.choice(["\u00a0", "\u2009", "\u3000", "\u0085"])
                out.append((rs[0] + b if R.random() < 0.5 else b + rs[0], "unicode-blank-at-edge"))
        elif r < 0.95 and any(x in names for x in ("JJJ", "00J")) and "YYYY" in names:
            # day 366 of the year 9999 (not a leap year): date arithmetic leaves the range of dates altogether.
            # Whether day 366 of a non-leap year "matches" is left open by the statement - but it must not crash.
            st = dict(base_state)
            st.update(year_y=9999, year_g=9999, doy=366)
            t = ref.render(ast, st)
            out.append((t, "doy-366-at-year-9999"))
        elif has_md:
            st = dict(base_state)
            st.update(year_y=R.choice([2021, 2023, 2030]), month=R.choice([2, 2, 4, 6, 9, 11]))
            st["dom"] = 31 if st["month"] != 2 else R.choice([30, 31, 29])
            st["year_g"] = st["year_y"]
            t = ref.render(ast, st)
            if ref.parse(ast, t) is not None:
                out.append((t, "impossible-date"))
    seen = set()
    res = []
    for t, k in out:
        if t not in seen and (t == t.strip() or k == "unicode-blank-at-edge") and " " not in t and t:
            seen.add(t)
            res.append((t, k))
    R.shuffle(res)
    return res


def expected_start(ast, tdy, cfg_version, tags_all, tags_merged, scope, ignore):
    """set of acceptable start versions (members of the maximal equivalence class) + explanation"""
    if ignore:
        return {cfg_version}, "ignore"
    pool = tags_merged if scope == "branch" else tags_all
    m = [t for t in pool if matches(ast, t, tdy)]
    if not m:
        return {cfg_version}, "no-matching-tag"
    best = max(vkey(t) for t in m)
    top = {t for t in m if vkey(t) == best}
    if scope == "default":
        if best == vkey(cfg_version):
            return top | {cfg_version}, "config-equals-greatest-tag"  # same version; the statement fixes no spelling
        if best < vkey(cfg_version):
            return {cfg_version}, "config-wins"
        return top, "tag-wins"
    return top, "tag-wins"


# lexid.next_id on an id that has no successor (BUILD 9999): the start version itself cannot be bumped, with or
# without tags, so such a run says nothing about tag handling
LEXID_EXHAUSTED = "OverflowError: max lexical version reached"


def make_project(p, cur, scope_cfg):
    lines = ["[bumpver]", f"current_version = {projects.toml_str(cur)}", f"version_pattern = {projects.toml_str(p)}"]
    if scope_cfg:
        lines.append(f'tag_scope = "{scope_cfg}"')
    lines += ["commit = false", "", "[bumpver.file_patterns]", '"bumpver.toml" = [\'current_version = "{version}"\']', ""]
    return {"bumpver.toml": "\n".join(lines)}


def pick(R, tdy):
    p = R.choice(PATTERNS) if R.random() < 0.8 else gen.gen_pattern(R, decorate=False, pep_bias=True)
    if " " in p:
        raise harness.Skip("space-in-pattern")
    ast = ref.parse_pattern(p)
    names = list(ref.parts_in(ast))
    _d, st0 = gen.gen_state(R, names)
    rs = gen.reachable(ast, st0, tdy)
    if rs is None or ref.n_full_parses(ast, rs[0]) != 1 or projects._week53(names, rs[1]) or vkey(rs[0]) is None:
        raise harness.Skip("unusable-start")
    return p, ast, names, rs[0], rs[1]


def planned_update(case, p, ast, start, tdy):
    names = list(ref.parts_in(ast))
    st = updates.new_state_from_text(p, start, tdy)
    fl = gen.gen_flags(random.Random(case["seed"] ^ 5), names, applicable_only=True)
    fl["pin_date"] = False
    if "PATCH" in names:
        fl["patch"] = True
    date = dt.date(max(st.get("year_y") or 2021, 2001), st.get("month") or 6, min(st.get("dom") or 15, 28))
    return fl, date


def observe(ctx, case, d, env, p, ast, tdy, cur, tags_all, tags_merged, scope, cli_scope, ignore, backend, kinds,
            fetch_fails=False):
    """`scope` is the tag scope of the config file; `cli_scope` (or None) is given to `update` as --tag-scope and
    overrides it there (`show` has no such option)."""
    acceptable, why = expected_start(ast, tdy, cur, tags_all, tags_merged, scope, ignore)
    fetch_arg = "--fetch" if fetch_fails else "--no-fetch"
    args = ["show", fetch_arg] + (["--ignore-vcs-tag"] if ignore else [])
    res = harness.invoke(args, cwd=d, env=env)
    if fetch_fails and not ignore:
        # the implicit fetch fails (unreachable remote): bumpver may give up, but if it answers, the local tags
        # still decide the start version
        ctx.count("fetch_failure_cases")
        if res.exit_code != 0 or res.crash:
            ctx.count("fetch_failure_aborts")
            return
    desc = {"pattern": p, "config_version": cur, "tags_all": tags_all, "tags_merged": tags_merged, "scope": scope,
            "ignore": ignore, "backend": backend, "expected": sorted(acceptable), "why": why}
    m_all = [t for t in tags_all if matches(ast, t, tdy)]
    rel = "none" if not m_all else ("below" if vkey(cur) < max(map(vkey, m_all)) else
                                    "equal" if vkey(cur) == max(map(vkey, m_all)) else "above")
    ties = len(acceptable) > 1
    ctx.count("scope:" + scope)
    if ignore:
        ctx.count("ignore_runs")
    if ties:
        ctx.count("tie_cases")
    if why == "no-matching-tag":
        ctx.count("no_matching_tag_cases")
    if "impossible-date" in kinds:
        ctx.count("impossible_date_tags")
    ctx.evaluated((scope, min(len(m_all), 4), tuple(sorted(kinds - {"valid"})), rel, ties, ignore, backend),
                  sample={k: desc[k] for k in ("pattern", "config_version", "tags_all", "scope", "expected")})
    cls_crash = "impossible_date_tag_crashes" if ("impossible-date" in kinds and res.crash and "ValueError" in res.crash) \
        else "out_of_range_date_tag_crashes" if ("doy-366-at-year-9999" in kinds and res.crash and "OverflowError" in res.crash) \
        else "other:show_fails_because_of_tags"
    if res.exit_code != 0 or res.crash:
        ctx.violation(cls_crash, f"show exits {res.exit_code}: {res.crash or res.errors()[-2:]}", case=case, observed=desc)
        return
    if "doy-366-at-year-9999" in kinds:
        ctx.count("doy_366_at_year_9999_cases")
        u = harness.invoke(["update", "--dry", "--no-fetch", "--date", "2031-02-03"], cwd=d, env=env)
        if u.crash and LEXID_EXHAUSTED in u.crash:
            ctx.count("start_version_at_lexid_maximum")     # BUILD 9999 cannot be incremented: nothing to do with tags
        elif u.crash:
            ctx.violation("out_of_range_date_tag_crashes", f"update --dry: {u.crash[-200:]}", case=case, observed=desc)
        return      # only "does not break" is asserted here (see gen_tags)
    got = res.stdout_value("Current Version: ")
    pep_line = res.stdout_value("PEP440         : ")
    if got is not None and vkey(got) is not None:
        ctx.count("show_pep440_line_checked")
        if pep_line is None or vkey(pep_line) != vkey(got):
            ctx.violation("other:show_pep440_line_differs_from_current_version", f"show reports Current Version {got!r} "
                          f"but PEP440 {pep_line!r} (config {cur!r}, tags {tags_all})", case=case, observed=desc)
    if got not in acceptable:
        ctx.violation("other:wrong_start_version", f"show reports {got!r}; expected one of {sorted(acceptable)} ({why}); "
                      f"scope={scope} ignore={ignore} config={cur!r} tags={tags_all} merged={tags_merged}", case=case, observed=desc)
        return
    # update --dry: same start; the announced version never equals an existing tag (any branch)
    fl, date = planned_update(case, p, ast, got, tdy)
    uargs = ["update", "--dry", fetch_arg] + gen.flags_to_args(fl, date) + (["--ignore-vcs-tag"] if ignore else [])
    if cli_scope:
        uargs += ["--tag-scope", cli_scope]
        ctx.count("cli_tag_scope_overrides")
        scope = cli_scope
        acceptable, why = expected_start(ast, tdy, cur, tags_all, tags_merged, scope, ignore)
        desc = dict(desc, scope=f"{desc['scope']} overridden by --tag-scope {cli_scope}", expected=sorted(acceptable))
    ures = harness.invoke(uargs, cwd=d, env=env)
    if fetch_fails and not ignore and (ures.crash or ures.exit_code != 0):
        return
    if ures.crash and LEXID_EXHAUSTED in ures.crash:
        ctx.count("start_version_at_lexid_maximum")
        return
    if ures.crash:
        ctx.violation("impossible_date_tag_crashes" if ("impossible-date" in kinds and "ValueError" in ures.crash)
                      else "other:update_crashes_because_of_tags",
                      f"{uargs}: {ures.crash[:300]}", case=case, observed=desc)
        return
    old = ures.record_value("Old Version: ")
    if ures.exit_code == 0:
        if old not in acceptable:
            ctx.violation("other:wrong_start_version", f"update --dry starts from {old!r}; expected one of "
                          f"{sorted(acceptable)} ({why}); scope={scope}", case=case, observed=desc)
        a = ures.record_value("New Version: ")
        if not ignore or scope == "branch":
            # (with --ignore-vcs-tag the tag invariant is waived by the user - except in branch scope, where the
            # uniqueness check against the tags of ALL branches is the documented safeguard and stays in force)
            ctx.count("uniqueness_checked")
            if ignore:
                ctx.count("uniqueness_checked_under_ignore_in_branch_scope")
            same = [t for t in tags_all if t == a or (matches(ast, t, tdy) and vkey(t) is not None and vkey(t) == vkey(a))]
            if same:
                ctx.violation("other:new_version_equals_existing_tag" if a in tags_all else
                              "new_version_pep440_equal_to_existing_tag", f"{uargs}: announced {a!r} equals the "
                              f"existing tag(s) {same} (scope={scope}, tags={tags_all})", case=case, observed=desc)


def run_fake(ctx, case):
    R = random.Random(case["seed"])
    tdy = updates.today()
    p, ast, names, cur, st = pick(R, tdy)
    tags = gen_tags(R, p, ast, names, tdy, st)
    kinds = {k for _t, k in tags}
    tags_all = [t for t, _k in tags]
    tags_merged = [t for t in tags_all if R.random() < 0.6]
    scope = R.choice(["default", "global", "branch"])
    cli_scope = R.choice([None, None, "default", "global", "branch"])
    ignore = R.random() < 0.2
    # config relation: sometimes make the config version the greatest / equal to the greatest tag
    m = [t for t in tags_all if matches(ast, t, tdy)]
    if m and R.random() < 0.3:
        cur = max(m, key=vkey)
    eff_scope = cli_scope or scope
    if (ignore and R.random() < 0.6) or (eff_scope == "branch" and R.random() < 0.4):
        # the version the planned update arrives at already exists as a tag on ANOTHER branch - as the same text,
        # or in another spelling of the same PEP 440 version (1.3 vs 1.3.0)
        start = cur
        if not ignore:
            acc, _w = expected_start(ast, tdy, cur, tags_all, tags_merged, eff_scope, ignore)
            start = sorted(acc)[0]
        fl, date = planned_update(case, p, ast, start, tdy)
        exp, _why = updates.model_bump(p, start, fl, date, tdy)
        if exp is not None and exp not in tags_all:
            plant = exp
            if R.random() < 0.5:
                st_exp = updates.new_state_from_text(p, exp, tdy)
                full = ref.render_full(ast, st_exp) if st_exp else exp
                if full != exp and ref.parse(ast, full) is not None and vkey(full) is not None and vkey(full) == vkey(exp):
                    plant = full
                    ctx.count("planned_result_is_a_pep440_equal_tag_elsewhere")
            tags_all.append(plant)
            kinds.add("valid")
            ctx.count("planned_result_is_a_tag_elsewhere")
    d = harness.new_project(make_project(p, cur, scope if (scope != "default" or R.random() < 0.5) else None))
    use_hg = R.random() < 0.2
    fake = harness.FakeVCS(d, "hg" if use_hg else "git")
    try:
        raw_extra = b""
        if R.random() < 0.1 and not use_hg:
            raw_extra = b"caf\xe9-nightly\n"      # a tag name that is not valid UTF-8 (git does not care)
            # ... and one that WOULD be a (high) matching version if the undecodable bytes were dropped
            _d, hst = gen.gen_state(R, names)
            hst.update(major=779, year_y=2095, year_g=2095)
            hrs = gen.reachable(ast, hst, tdy)
            if hrs and not projects._week53(names, hrs[1]):
                hb = hrs[0].encode("utf-8")
                cut = R.randrange(0, len(hb) + 1)
                raw_extra += hb[:cut] + R.choice([b"\xff", b"\xfe\xff", b"\xc3", b"\xe2\x82"]) + hb[cut:] + b"\n"
                ctx.count("non_utf8_bytes_inside_a_version_text")
            kinds.add("non-utf8-name")
            ctx.count("non_utf8_tag_names")
        if use_hg:
            # the hg command set: `hg tags` prints "name   rev:node" lines (and `tip`); the branch-scope query prints
            # the tags of one changeset on ONE line, separated by blanks
            ctx.count("fake_hg_runs")
            lines = ["tip" + " " * 30 + "9:aaaaaaaaaaaa"] + [f"{t:<32} {i}:bbbbbbbbbbbb" for i, t in enumerate(tags_all)]
            fake.set_out("tag-list", "\n".join(lines) + "\n")
            grouped, rest = ["tip"], list(tags_merged)
            while rest:
                k = R.choice([1, 1, 2, 3])
                grouped.append(" ".join(rest[:k]))
                if k > 1 and len(rest) >= 2:
                    ctx.count("hg_changesets_with_several_tags")
                rest = rest[k:]
            fake.set_out("tag-merged", "\n".join(grouped) + "\n")
        else:
            fake.set_out("tag-list", "".join(t + "\n" for t in tags_all).encode("utf-8") + raw_extra)
            fake.set_out("tag-merged", "".join(t + "\n" for t in tags_merged).encode("utf-8") + raw_extra)
        ctx.count("fake_runs")
        if "line-separator-in-name" in kinds:
            ctx.count("line_separator_in_tag_name")
        if "unicode-blank-at-edge" in kinds:
            ctx.count("unicode_blank_at_tag_edge")
        fetch_fails = R.random() < 0.12
        if fetch_fails:
            fake.set_out("branch", "*origin\n")
            fake.set_out("remote", "git@unreachable.example:x/y.git\n" if not use_hg else "default = https://unreachable.example/x\n")
            fake.fail_match(["git fetch", "hg pull"])
        observe(ctx, case, d, fake.env, p, ast, tdy, cur, tags_all, tags_merged, scope, cli_scope, ignore, "fake", kinds,
                fetch_fails=fetch_fails)
    finally:
        harness.rm_dir(d)
        fake.destroy()


GIT_ENV = {"GIT_CONFIG_GLOBAL": "/dev/null", "GIT_CONFIG_SYSTEM": "/dev/null", "GIT_AUTHOR_NAME": "t",
           "GIT_AUTHOR_EMAIL": "t@e", "GIT_COMMITTER_NAME": "t", "GIT_COMMITTER_EMAIL": "t@e"}


def git(d, *a):
    e = dict(os.environ, HOME=d, **GIT_ENV)
    p = subprocess.run(["git", *a], cwd=d, env=e, capture_output=True, timeout=60)
    if p.returncode:
        raise harness.Skip("git-setup-failed:" + p.stderr.decode("utf-8", "replace")[:100])
    return p.stdout.decode()


def run_real(ctx, case):
    R = random.Random(case["seed"])
    tdy = updates.today()
    p, ast, names, cur, st = pick(R, tdy)
    tags = [(t, k) for t, k in gen_tags(R, p, ast, names, tdy, st)
            if "/" not in t and ".." not in t and not t.startswith("-") and t.isascii() and len(t) < 40][:12]
    kinds = {k for _t, k in tags}
    scope = R.choice(["default", "global", "branch"])
    cli_scope = R.choice([None, None, "default", "global", "branch"])
    ignore = R.random() < 0.15
    d = harness.new_project(make_project(p, cur, scope))
    try:
        git(d, "init", "-q", "-b", "main")
        if R.random() < 0.3:
            # a user setting that makes `git tag --list` print several tags per line
            git(d, "config", "column.ui", "always")
            ctx.count("real_git_column_ui_always")
        env = dict(GIT_ENV, HOME=d)
        if case["seed"] % 9 == 4:
            # a repository without any commit: no tag exists, none is reachable - the config value is the start
            ctx.count("real_git_runs")
            ctx.count("real_git_head_without_commit")
            observe(ctx, case, d, env, p, ast, tdy, cur, [], [], scope, cli_scope, ignore, "real-git:no-commit-yet", set())
            return
        git(d, "add", "-A")
        git(d, "commit", "-q", "-m", "c1")
        commits = {"c1": ["main", "dev"]}
        # main: c1 c2 c3 ; dev (from c2): d1
        placement = {}
        order = ["c1", "c2", "d1", "c3"]
        for t, _k in tags:
            placement[t] = R.choice(order)

        def tag_here(name):
            for t, c in placement.items():
                if c == name:
                    git(d, "tag", t)

        tag_here("c1")
        git(d, "commit", "-q", "--allow-empty", "-m", "c2")
        tag_here("c2")
        git(d, "checkout", "-q", "-b", "dev")
        git(d, "commit", "-q", "--allow-empty", "-m", "d1")
        tag_here("d1")
        git(d, "checkout", "-q", "main")
        git(d, "commit", "-q", "--allow-empty", "-m", "c3")
        tag_here("c3")
        head = R.choice(["main", "dev"])
        git(d, "checkout", "-q", head)
        reach = {"main": {"c1", "c2", "c3"}, "dev": {"c1", "c2", "d1"}}[head]
        if case["seed"] % 9 == 5:
            # a fresh orphan branch: tags exist, but none is reachable from a HEAD that has no commit yet
            git(d, "checkout", "-q", "--orphan", "fresh")
            head, reach = "orphan", set()
            ctx.count("real_git_head_without_commit")
        tags_all = [t for t, _k in tags]
        tags_merged = [t for t in tags_all if placement[t] in reach]
        if case["seed"] % 9 == 6 and head != "orphan":
            # the same history seen from a LINKED work tree (`.git` is a file there): the tags are the same tags
            wt = d + ".wt"
            git(d, "worktree", "add", "-q", "-b", "wtbranch", wt, "HEAD")
            ctx.count("real_git_runs")
            ctx.count("real_git_linked_work_tree")
            try:
                observe(ctx, case, wt, dict(GIT_ENV, HOME=d), p, ast, tdy, cur, tags_all, tags_merged, scope, cli_scope, ignore,
                        "real-git:linked-worktree", kinds)
            finally:
                harness.rm_dir(wt)
            return
        ctx.count("real_git_runs")
        observe(ctx, case, d, env, p, ast, tdy, cur, tags_all, tags_merged, scope, cli_scope, ignore, "real-git:" + head, kinds)
    finally:
        harness.rm_dir(d)


def run_legacy(ctx, case):
    """legacy {..} version patterns: the same start-version rule, tags recognised by the legacy engine"""
    from bvmon import ref_v1
    R = random.Random(case["seed"])
    p = R.choice(["{pycalver}", "{semver}", "v{year}{month}{build}{release}", "{year}.{month}.{dom}", "v{year}.{doy}"])
    ast = ref_v1.parse_pattern(p)

    def mk():
        d0 = dt.date(2001, 1, 1) + dt.timedelta(R.randint(0, 30000))
        names = ref_v1.parts_in(ast)
        tag = R.choice(ref_v1.TAGS) if any(n in names for n in ("release", "tag")) else "final"
        st = ref_v1.state_from_date(d0, R.choice(["1001", "1002", "1999", "22000", "0999"]), tag, R.randint(0, 12),
                                    R.randint(0, 12), R.randint(0, 12))
        return ref_v1.render(ast, st)

    cur = mk()
    tags = [(mk(), "valid") for _ in range(R.choice([0, 1, 2, 4, 8]))]
    tags += [(t, "junk") for t in R.sample(["junk", "v1", "1.2", "release-3", "2021.13.40", "v202113.1001", "1.2.3.4"],
                                          R.randint(0, 3))]
    # tags that only START like a version of the pattern (a valid version followed by other text)
    tags += [(mk() + R.choice(["junk", "x", "-extra", ".1", "+local", " "]).rstrip(), "valid-prefix-only")
             for _ in range(R.choice([0, 0, 1, 2]))]
    if p == "{year}.{month}.{dom}":
        tags += [(t, "impossible-date") for t in R.sample(["2021.02.30", "2023.04.31", "2022.02.29", "2099.00.15"], R.randint(0, 2))]
    # month 00 / day-of-year 000 (with a year later than any real tag): no such date
    zero = {"{pycalver}": "v209900.1001", "v{year}{month}{build}{release}": "v209900.1001-beta", "v{year}.{doy}": "v2099.000"}.get(p)
    if zero and R.random() < 0.5:
        tags.append((zero, "impossible-date"))
        ctx.count("legacy_tags_with_month_or_day_zero")
    seen, tl = set(), []
    for t, k in tags:
        if t not in seen:
            seen.add(t)
            tl.append((t, k))
    R.shuffle(tl)
    tags_all = [t for t, _k in tl]
    tags_merged = [t for t in tags_all if R.random() < 0.6]
    scope = R.choice(["default", "global", "branch"])

    def legacy_matches(t):
        raw = ref_v1.parse(ast, t)
        if raw is None:
            return False
        vals = {ref_v1.FIELD[n]: x for n, x in raw}
        try:
            if "year" in vals and "month" in vals and "dom" in vals:
                dt.date(int(vals["year"]), int(vals["month"]), int(vals["dom"]))
        except ValueError:
            return False
        return True

    pool = tags_merged if scope == "branch" else tags_all
    m = [t for t in pool if legacy_matches(t)]
    if any(vkey(t) is None for t in m) or vkey(cur) is None:
        raise harness.Skip("non-pep440-legacy-version")
    if not m:
        acceptable = {cur}
    else:
        best = max(vkey(t) for t in m)
        top = {t for t in m if vkey(t) == best}
        if scope == "default":
            acceptable = {cur} if best < vkey(cur) else (top | {cur} if best == vkey(cur) else top)
        else:
            acceptable = top
    d = harness.new_project(make_project(p, cur, scope))
    fake = harness.FakeVCS(d, "git")
    try:
        fake.set_out("tag-list", "".join(t + "\n" for t in tags_all))
        fake.set_out("tag-merged", "".join(t + "\n" for t in tags_merged))
        res = harness.invoke(["show", "--no-fetch"], cwd=d, env=fake.env)
        ctx.count("legacy_pattern_runs")
        ctx.count("scope:" + scope)
        ctx.evaluated(("legacy", p, scope, min(len(m), 3), tuple(sorted({k for _t, k in tl} - {"valid"}))),
                      sample={"pattern": p, "config_version": cur, "tags_all": tags_all, "scope": scope})
        desc = {"pattern": p, "config": cur, "tags": tags_all, "merged": tags_merged, "scope": scope, "expected": sorted(acceptable)}
        if res.exit_code != 0 or res.crash:
            ctx.violation("other:show_fails_because_of_tags", f"legacy pattern {p!r}: show exits {res.exit_code}: "
                          f"{res.crash or res.errors()[-2:]}", case=case, observed=desc)
            return
        got = res.stdout_value("Current Version: ")
        if got not in acceptable:
            kinds_by_tag = dict(tl)
            cls = "legacy_tag_matched_by_prefix_only" if kinds_by_tag.get(got) == "valid-prefix-only" else "other:wrong_start_version"
            ctx.violation(cls, f"legacy pattern {p!r}: show reports {got!r}, expected one of "
                          f"{sorted(acceptable)} (scope {scope}, config {cur!r}, tags {tags_all}, merged {tags_merged})",
                          case=case, observed=desc)
    finally:
        harness.rm_dir(d)
        fake.destroy()


# patterns with an OPTIONAL calendar part: a tag may leave it out and still match in full
OPTCAL = [("YYYY.MM[.DD]", "2026.9.30", ["2026.8", "2026.7.15", "junk"], "2026.9.30"),
          ("YYYY.MM[.DD]", "2026.5.1", ["2026.8", "2026.7.15"], "2026.8"),
          ("vYYYY[.0M[.0D]]", "v2025.03.07", ["v2026", "v2024.11", "v2025.03.01"], "v2026"),
          ("YYYY[.Q].BUILD", "2026.2.1001", ["2026.1002", "2025.4.0999"], None),
          ("GGGG[.0V].INC0", "2026.07.3", ["2026.4", "2025.51.0"], None)]


def run_optcal(ctx, case):
    p, cur, tags, want = OPTCAL[case["i"]]
    scope = case["scope"]
    d = harness.new_project(make_project(p, cur, scope))
    fake = harness.FakeVCS(d, "git")
    try:
        fake.set_out("tag-list", "\n".join(tags) + "\n")
        fake.set_out("tag-merged", "\n".join(tags) + "\n")
        ctx.count("tags_omitting_an_optional_calendar_part")
        ctx.evaluated(("optcal", p, scope), sample={"pattern": p, "config": cur, "tags": tags})
        for args in (["show", "--no-fetch"], ["update", "--dry", "--no-fetch", "--date", "2031-02-03"]):
            res = harness.invoke(args, cwd=d, env=fake.env)
            if res.crash:
                ctx.violation("other:tag_without_optional_calendar_part_crashes", f"{args} with pattern {p!r}, config {cur!r}, tags "
                              f"{tags}: {res.crash[-300:]}", case=case)
                return
            got = res.stdout_value("Current Version: ") if args[0] == "show" else res.record_value("Old Version: ")
            # (global and branch scope start from the greatest tag whatever the config says: asserted for default scope only)
            if want is not None and scope == "default" and res.exit_code == 0 and got != want:
                ctx.violation("other:wrong_start_version", f"{args}: starts from {got!r}, expected {want!r} (pattern {p!r}, config "
                              f"{cur!r}, tags {tags}, scope {scope})", case=case)
    finally:
        harness.rm_dir(d)
        fake.destroy()


def run_case(ctx, case):
    if case["kind"] == "optcal":
        return run_optcal(ctx, case)
    if case["kind"] == "legacy":
        return run_legacy(ctx, case)
    if case["kind"] == "fake":
        return run_fake(ctx, case)
    return run_real(ctx, case)

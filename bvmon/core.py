"""Driver / worker plumbing shared by all checks.

A check module (bvmon/checks/Cxx.py) provides

    SPEC = dict(level=..., rule=..., assumptions=[...], required=[counter names],
                anchors=[(module, funcname), ...])
    def cases(ctx):            # generator of JSON-serialisable case dicts for this shard
    def run_case(ctx, case):   # drive the real code on one case, feed the oracle

The driver (./check) spawns N worker subprocesses (shard i/N), merges what their monitors
observed, classifies violations against known_findings.json, writes evidence/<id>.json and
prints VIOLATION / KNOWN-FINDING / INCONCLUSIVE lines.
"""
import collections
import hashlib
import importlib
import json
import os
import random
import subprocess
import sys
import time

VERIF = os.path.dirname(os.path.dirname(os.path.abspath(__file__)))
PY = "/venv/bin/python"
NCPU = os.cpu_count() or 4


def src_dir():
    return os.environ.get("BUMPVER_SRC", "/repo/src")


def setup_paths():
    """Make the code under test (current working tree) and the monitor deps importable."""
    deps = os.path.join(VERIF, ".deps")
    for p in (deps, VERIF, src_dir()):
        if p in sys.path:
            sys.path.remove(p)
        sys.path.insert(0, p)


def ensure_setup():
    if not (os.path.isdir(os.path.join(VERIF, ".deps", "icontract"))
            and os.access(os.path.join(VERIF, ".build", "fakevcs"), os.X_OK)):
        r = subprocess.run(["/bin/sh", os.path.join(VERIF, "setup.sh")], capture_output=True, text=True)
        if r.returncode != 0:
            print("INCONCLUSIVE reason=setup-failed " + r.stderr.strip()[:200])
            sys.exit(2)


class Ctx:
    """Worker-side collector: what the monitors of this shard observed."""

    MAX_PER_CLASS = 3

    def __init__(self, prop, tier, seed, shard, nshards):
        self.prop, self.tier, self.seed, self.shard, self.nshards = prop, tier, seed, shard, nshards
        self.rng = random.Random(f"{seed}:{prop}:{shard}")
        self.evaluations = 0
        self.nt = set()
        self.nt_extra = 0  # distinct non-trivial cases counted without materialising keys (see check's rule)
        self.samples = []
        self.viol = {}  # cls -> dict(count, items[])
        self.counters = collections.Counter()
        self.cur_case = None

    @property
    def quick(self):
        return self.tier == "quick"

    def size(self, quick, thorough):
        """Total workload size for the tier, divided over the shards (ceil)."""
        total = quick if self.quick else thorough
        return -(-total // self.nshards)

    def mine(self, index):
        return index % self.nshards == self.shard

    def evaluated(self, nt_key=None, sample=None, n=1):
        self.evaluations += n
        if nt_key is not None:
            self.nt.add(nt_key if isinstance(nt_key, str) else json.dumps(nt_key, sort_keys=True, default=str))
        if sample is not None and (len(self.samples) < 2 or (len(self.samples) < 4 and self.rng.random() < 0.01)):
            self.samples.append(sample)

    def count(self, name, n=1):
        self.counters[name] += n

    def violation(self, cls, msg, case=None, observed=None):
        """Record a violation of mechanism class `cls` (classes are what is reported/deduplicated)."""
        ent = self.viol.setdefault(cls, {"count": 0, "items": []})
        ent["count"] += 1
        if len(ent["items"]) < self.MAX_PER_CLASS:
            ent["items"].append({"msg": msg, "case": case if case is not None else self.cur_case,
                                 "observed": observed})

    def dump(self):
        return {
            "evaluations": self.evaluations,
            "nt": sorted(self.nt),
            "nt_extra": self.nt_extra,
            "samples": self.samples,
            "viol": self.viol,
            "counters": dict(self.counters),
        }


def load_check(prop):
    setup_paths()
    return importlib.import_module(f"bvmon.checks.{prop}")


def worker_main(argv):
    prop, tier, seed, shard, nshards, out = argv[0], argv[1], int(argv[2]), int(argv[3]), int(argv[4]), argv[5]
    os.environ.setdefault("PYTHONHASHSEED", "0")
    mod = load_check(prop)
    ctx = Ctx(prop, tier, seed, shard, nshards)
    from bvmon import harness
    harness.init_process(anchors=mod.SPEC.get("anchors", []))
    t0 = time.time()
    budget = float(os.environ.get("BVMON_WORKER_BUDGET_S", "0") or 0)
    try:
        if shard == 0:
            # pinned witnesses (one per known finding and per repaired defect) run on every tier
            for case in getattr(mod, "PINNED", []):
                ctx.cur_case = case
                try:
                    mod.run_case(ctx, case)
                except harness.Skip as ex:
                    ctx.count("discarded:pinned:" + str(ex))
        for case in mod.cases(ctx):
            ctx.cur_case = case
            try:
                mod.run_case(ctx, case)
            except harness.Skip as ex:
                ctx.count("discarded:" + str(ex))
            except Exception as ex:
                # an exception raised INSIDE the code under test that reaches the monitor through a direct library
                # call is an observation (a violation witness), not a harness failure
                import traceback
                tb = traceback.extract_tb(ex.__traceback__)
                srcd, verd = os.path.abspath(src_dir()), os.path.abspath(VERIF)
                i_src = max([i for i, f in enumerate(tb) if os.path.abspath(f.filename).startswith(srcd)], default=-1)
                i_mon = max([i for i, f in enumerate(tb) if os.path.abspath(f.filename).startswith(verd)], default=-1)
                if i_src > i_mon:   # raised in (or below) the code under test, not in the monitor
                    fr = tb[i_src]
                    where = f"{os.path.basename(fr.filename)}:{fr.lineno} in {fr.name}"
                    ctx.violation("other:exception_escaped_from_code_under_test:" + type(ex).__name__,
                                  f"{type(ex).__name__}: {ex} at {where}", case=case)
                else:
                    raise
            if budget and time.time() - t0 > budget:
                ctx.count("budget_stop")
                break
        if hasattr(mod, "finish"):
            mod.finish(ctx)
    finally:
        harness.cleanup()
    res = ctx.dump()
    res["reach"] = harness.reach_counts()
    if os.environ.get("BVMON_COVERAGE"):
        res["cov"] = harness.coverage_lines()
    res["wall_s"] = time.time() - t0
    with open(out, "w") as f:
        json.dump(res, f, default=str)


def load_known():
    path = os.path.join(VERIF, "known_findings.json")
    if not os.path.exists(path):
        return []
    with open(path) as f:
        return json.load(f)["findings"]


def driver_main(prop, tier, seed, replay=None, nshards=None):
    ensure_setup()
    mod = load_check(prop)
    spec = mod.SPEC
    t0 = time.time()
    if replay:
        return replay_main(prop, mod, replay)
    nshards = nshards or int(os.environ.get("BVMON_SHARDS", "0")) or spec.get("shards", NCPU)
    tmpdir = os.path.join(os.environ.get("TMPDIR", "/tmp"), f"bvmon-{prop}-{os.getpid()}")
    os.makedirs(tmpdir, exist_ok=True)
    procs = []
    env = dict(os.environ, PYTHONHASHSEED="0", PYTHONDONTWRITEBYTECODE="1")
    env["PYTHONPATH"] = VERIF
    for i in range(nshards):
        out = os.path.join(tmpdir, f"w{i}.json")
        errp = os.path.join(tmpdir, f"w{i}.err")
        p = subprocess.Popen([PY, "-m", "bvmon.worker", prop, tier, str(seed), str(i), str(nshards), out],
                             cwd=VERIF, env=env, stdout=subprocess.DEVNULL, stderr=open(errp, "w"))
        procs.append((p, out, errp))
    watchdog = spec.get("watchdog_s", {"quick": 900, "thorough": 7200})[tier]
    inconclusive = []
    results = []
    for p, out, errp in procs:
        left = max(1.0, watchdog - (time.time() - t0))
        try:
            p.wait(timeout=left)
        except subprocess.TimeoutExpired:
            p.kill()
            inconclusive.append("worker-watchdog")
            continue
        if p.returncode != 0 or not os.path.exists(out):
            tail = open(errp).read()[-1500:]
            inconclusive.append("worker-crashed rc=%s: %s" % (p.returncode, tail.replace("\n", " | ")))
            continue
        with open(out) as f:
            results.append(json.load(f))
    subprocess.run(["rm", "-rf", tmpdir])

    merged = {"evaluations": 0, "nt_extra": 0, "nt": set(), "samples": [], "viol": {}, "counters": collections.Counter(),
              "reach": collections.Counter()}
    cov = set()
    for r in results:
        cov.update(tuple(x) for x in r.get("cov", []))
    if os.environ.get("BVMON_COVERAGE"):
        os.makedirs(os.path.join(VERIF, ".build", "cov"), exist_ok=True)
        with open(os.path.join(VERIF, ".build", "cov", f"{prop}.json"), "w") as f:
            json.dump(sorted(cov), f)
    for r in results:
        merged["evaluations"] += r["evaluations"]
        merged["nt"].update(r["nt"])
        merged["nt_extra"] += r.get("nt_extra", 0)
        merged["samples"].extend(r["samples"][:1] if len(merged["samples"]) >= 3 else r["samples"][:2])
        merged["counters"].update(r["counters"])
        for rk, rv in r.get("reach", {}).items():
            if rk.endswith("#lines"):
                merged["reach"][rk] = max(merged["reach"].get(rk, 0), rv)
            else:
                merged["reach"][rk] += rv
        for cls, ent in r["viol"].items():
            m = merged["viol"].setdefault(cls, {"count": 0, "items": []})
            m["count"] += ent["count"]
            m["items"].extend(ent["items"])
    merged["samples"] = merged["samples"][:6]

    # required monitors must have observed something, anchors must have been reached
    for name in spec.get("required", []):
        if merged["counters"].get(name, 0) <= 0:
            inconclusive.append(f"monitor-saw-nothing:{name}")
    for mname, fname in spec.get("anchors", []):
        if merged["reach"].get(f"{mname}.{fname}", 0) <= 0:
            inconclusive.append(f"anchor-not-reached:{mname}.{fname}")
    min_nt = spec.get("min_nontrivial", 2)
    n_nt = len(merged["nt"]) + merged["nt_extra"]
    if n_nt < min_nt:
        inconclusive.append(f"too-few-nontrivial:{n_nt}<{min_nt}")

    known = [k for k in load_known() if k["property"] == prop and k["status"] == "known"]
    known_by_cls = {k["classifier"]: k for k in known}
    n_viol = 0
    lines = []
    known_hits = {}
    printed = set()
    for cls, ent in sorted(merged["viol"].items()):
        parts = cls.split("+")
        if all(c in known_by_cls for c in parts):
            # a case in which several listed mechanisms are present at once is explained by them
            known_hits[cls] = ent["count"]
            for c in parts:
                if c not in printed:
                    printed.add(c)
                    n = sum(e["count"] for k, e in merged["viol"].items() if c in k.split("+"))
                    lines.append(f"KNOWN-FINDING: property={prop} {known_by_cls[c]['what']} [{c}; {n} hits]")
            continue
        n_viol += 1
        os.makedirs(os.path.join(VERIF, "replay"), exist_ok=True)
        item = ent["items"][0]
        digest = hashlib.sha1(json.dumps([cls, item], sort_keys=True, default=str).encode()).hexdigest()[:10]
        rpath = os.path.join(VERIF, "replay", f"{prop}-{digest}.json")
        with open(rpath, "w") as f:
            json.dump({"property": prop, "class": cls, "count": ent["count"], "tier": tier, "seed": seed,
                       "src": src_dir(), "items": ent["items"][:5]}, f, indent=1, default=str)
        lines.append(f"VIOLATION property={prop} replay={rpath}")
        lines.append(f"  class={cls} count={ent['count']} first: {item['msg'][:400]}")

    wall = time.time() - t0
    cov = {
        "evaluations": merged["evaluations"],
        "distinct_nontrivial": n_nt,
        "rule": spec["rule"],
        "samples": merged["samples"] or [{"note": "no sample recorded"}],
        "exhaustive": bool(spec.get("exhaustive", {}).get(tier, False)) if isinstance(spec.get("exhaustive"), dict)
        else bool(spec.get("exhaustive", False)),
        "monitor_counters": dict(sorted(merged["counters"].items())),
        "anchor_reach": dict(sorted(merged["reach"].items())),
        "violation_classes": {c: e["count"] for c, e in merged["viol"].items()},
        "known_finding_hits": known_hits,
        "inconclusive_reasons": inconclusive,
        "shards": nshards,
        "code_under_test": src_dir(),
    }
    if spec.get("exhaustive_note"):
        cov["exhaustive_note"] = spec["exhaustive_note"]
    ev = {
        "property_id": prop,
        "tier": tier,
        "seed": seed,
        "level": spec["level"],
        "coverage": cov,
        "assumptions": spec.get("assumptions", []),
        "wall_s": round(wall, 2),
        "violations": n_viol,
    }
    os.makedirs(os.path.join(VERIF, "evidence"), exist_ok=True)
    with open(os.path.join(VERIF, "evidence", f"{prop}.json"), "w") as f:
        json.dump(ev, f, indent=1, default=str, sort_keys=True)
        f.write("\n")

    for ln in lines:
        print(ln)
    verdict = "violated" if n_viol else ("inconclusive" if inconclusive else "held")
    print(f"{prop} tier={tier} seed={seed} verdict={verdict} evaluations={merged['evaluations']} "
          f"distinct_nontrivial={n_nt} known_hits={sum(known_hits.values())} wall={wall:.1f}s")
    if n_viol:
        return 1
    if inconclusive:
        for r in inconclusive:
            print(f"INCONCLUSIVE property={prop} reason={r[:600]}")
        return 2
    return 0


def replay_main(prop, mod, path):
    from bvmon import harness
    with open(path) as f:
        rep = json.load(f)
    harness.init_process(anchors=[])
    ctx = Ctx(prop, rep.get("tier", "quick"), rep.get("seed", 0), 0, 1)
    try:
        for item in rep["items"]:
            ctx.cur_case = item["case"]
            try:
                mod.run_case(ctx, item["case"])
            except harness.Skip as ex:
                print("case discarded:", ex)
    finally:
        harness.cleanup()
    if ctx.viol:
        for cls, ent in ctx.viol.items():
            print(f"VIOLATION property={prop} replay={path}")
            print(f"  class={cls} {ent['items'][0]['msg'][:1500]}")
        return 1
    print(f"{prop} replay: no violation reproduced on {src_dir()}")
    return 0

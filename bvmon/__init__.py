"""bvmon: runtime monitors for mbarkhau/bumpver (see /verif/DESIGN.md)."""

import sys
from bvmon import core

if __name__ == "__main__":
    core.worker_main(sys.argv[1:])

"""Reference model for the legacy {..} patterns (written from the documented composites, not from the tables)."""
import datetime as dt
import re

from bvmon import ref

COMPOSITES = {
    "pycalver": "v{year}{month}.{bid}{release}",
    "pep440_pycalver": "{year}{month}.{BID}{pep440_tag}",
    "calver": "v{year}{month}",
    "semver": "{MAJOR}.{MINOR}.{PATCH}",
    "build": ".{bid}",
    "release_tag": "{tag}",
    "build_no": "{bid}",
    "yyyy": "{year}",
}
TAGS = ["alpha", "beta", "dev", "rc", "post", "final"]


def parse_pattern(p):
    """[('lit', s) | ('part', name)] with composites expanded"""
    for _ in range(3):
        for k, v in COMPOSITES.items():
            p = p.replace("{" + k + "}", v)
    out = []
    pos = 0
    for m in re.finditer(r"\{([a-zA-Z_0-9]+)\}", p):
        if m.start() > pos:
            out.append(("lit", p[pos:m.start()]))
        out.append(("part", m.group(1)))
        pos = m.end()
    if pos < len(p):
        out.append(("lit", p[pos:]))
    return out


def parts_in(ast):
    return [n[1] for n in ast if n[0] == "part"]


def render_part(name, st):
    if name == "year":
        return "%d" % st["year"]
    if name == "yy":
        return "%02d" % (st["year"] % 100)
    if name == "month":
        return "%02d" % st["month"]
    if name == "month_short":
        return "%d" % st["month"]
    if name == "dom":
        return "%02d" % st["dom"]
    if name == "dom_short":
        return "%d" % st["dom"]
    if name == "doy":
        return "%03d" % st["doy"]
    if name == "doy_short":
        return "%d" % st["doy"]
    if name == "quarter":
        return "%d" % st["quarter"]
    if name == "bid":
        return st["bid"]
    if name == "BID":
        return str(int(st["bid"]))
    if name in ("MAJOR", "MINOR", "PATCH"):
        return "%d" % st[name.lower()]
    if name == "tag":
        return st["tag"]
    if name == "release":
        return "" if st["tag"] == "final" else "-" + st["tag"]
    if name == "pep440_tag":
        return "" if st["tag"] == "final" else ref.TAGS[st["tag"]] + "0"
    raise KeyError(name)


def render(ast, st):
    return "".join(n[1] if n[0] == "lit" else render_part(n[1], st) for n in ast)


def _digits(s, i, lo, hi=None):
    j = i
    while j < len(s) and "0" <= s[j] <= "9":
        j += 1
    n = j - i
    top = n if hi is None else min(n, hi)
    for k in range(top, lo - 1, -1):
        yield i + k


def cand(name, s, i):
    def rng(w, lo, hi):
        t = s[i:i + w]
        if len(t) == w and t.isdigit() and t.isascii() and lo <= int(t) <= hi:
            yield i + w

    def short(lo, hi, maxw):
        for e in _digits(s, i, 1, maxw):
            t = s[i:e]
            if t[0] != "0" and lo <= int(t) <= hi:
                yield e

    if name == "year":
        yield from rng(4, 0, 9999)
    elif name == "yy":
        yield from rng(2, 0, 99)
    elif name == "month":
        yield from rng(2, 1, 12)
    elif name == "dom":
        yield from rng(2, 1, 31)
    elif name == "doy":
        yield from rng(3, 1, 366)
    elif name == "quarter":
        yield from rng(1, 1, 4)
    elif name == "month_short":
        yield from short(1, 12, 2)
    elif name == "dom_short":
        yield from short(1, 31, 2)
    elif name == "doy_short":
        yield from short(1, 366, 3)
    elif name == "bid":
        yield from _digits(s, i, 4)
    elif name == "BID":
        for e in _digits(s, i, 1):
            if s[i] != "0":
                yield e
        if s[i:i + 1] == "0":
            yield i + 1      # a build id of zero is written as `0`
    elif name in ("MAJOR", "MINOR", "PATCH"):
        yield from _digits(s, i, 1)
    elif name == "tag":
        for t in TAGS:
            if s.startswith(t, i):
                yield i + len(t)
    elif name == "release":
        for t in TAGS[:-1]:
            if s.startswith("-" + t, i):
                yield i + 1 + len(t)
        yield i
    elif name == "pep440_tag":
        for t in ("post", "dev", "rc", "a", "b"):
            if s.startswith(t, i):
                for e in _digits(s, i + len(t), 0):
                    yield e
        yield i


def parse(ast, s):
    """[(part, text)] for a full match or None"""
    res = []

    def go(k, i, acc):
        if k == len(ast):
            if i == len(s):
                res.append(acc)
                return True
            return False
        n = ast[k]
        if n[0] == "lit":
            return s.startswith(n[1], i) and go(k + 1, i + len(n[1]), acc)
        for e in cand(n[1], s, i):
            if go(k + 1, e, acc + [(n[1], s[i:e])]):
                return True
        return False

    go(0, 0, [])
    return res[0] if res else None


def state_from_date(d, bid="1000", tag="final", major=0, minor=0, patch=0):
    doy = (d - dt.date(d.year, 1, 1)).days + 1
    return dict(year=d.year, month=d.month, dom=d.day, doy=doy, quarter=(d.month - 1) // 3 + 1, bid=bid, tag=tag,
                major=major, minor=minor, patch=patch)


FIELD = {"year": "year", "yy": "year", "month": "month", "month_short": "month", "dom": "dom", "dom_short": "dom",
         "doy": "doy", "doy_short": "doy", "quarter": "quarter", "bid": "bid", "BID": "bid", "MAJOR": "major",
         "MINOR": "minor", "PATCH": "patch", "tag": "tag", "release": "tag", "pep440_tag": "tag"}


def next_bid(bid):
    """lexical-id successor WITHOUT the 1000 lift (the legacy engine increments the id as it is)"""
    if set(bid) == {"9"}:
        raise OverflowError(bid)
    width = len(bid)
    s = str(int(bid) + 1).zfill(width)
    if len(s) > width or s[0] != bid[0]:
        s = str(int(bid[0]) + 1) * 2 + "0" * (width - 1)
    return s

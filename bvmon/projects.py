"""Generated project layouts with planted version occurrences (shared by C01/C03/C04/C06/C13/C15...).

A layout is accepted only if the independent recogniser R1 proves that, for every configured pattern X of a
file and every physical line of that file, every span X can match lies inside X's own planted span on that
line (so the expectation never depends on regex greediness, and 'surrounding text does not itself match a
configured pattern'). Everything else is discarded and counted.
"""
import os
import re

from packaging.version import InvalidVersion, Version

from bvmon import gen, ref

PEP_ALPHABET = set("0123456789abcdefghijklmnopqrstuvwxyz.!+_-")


def is_pep440(text):
    try:
        Version(text)
        return True
    except InvalidVersion:
        return False


def toml_str(s):
    out = ['"']
    for ch in s:
        if ch == "\\":
            out.append("\\\\")
        elif ch == '"':
            out.append('\\"')
        elif ch == "\n":
            out.append("\\n")
        elif ch == "\r":
            out.append("\\r")
        elif ch == "\t":
            out.append("\\t")
        elif ord(ch) < 0x20 or ord(ch) == 0x7F:
            out.append("\\u%04x" % ord(ch))
        else:
            out.append(ch)
    out.append('"')
    return "".join(out)


class Plant:
    __slots__ = ("file", "start", "end", "kind", "raw", "norm", "ast", "text")

    def __init__(self, **kw):
        for k, v in kw.items():
            setattr(self, k, v)

    def as_dict(self):
        return {k: getattr(self, k) for k in ("file", "start", "end", "kind", "raw", "norm", "text")}


class Project:
    def __init__(self):
        self.files = {}        # relpath -> str content (config included)
        self.cfg_name = None
        self.fmt = None
        self.vp = None
        self.cur_text = None
        self.cur_state = None
        self.entries = []      # [(key_or_glob, [raw patterns])] as written in the config
        self.plants = []
        self.file_patterns = {}  # relpath -> [raw patterns] effective (config order)
        self.write_order = []
        self.eol = {}
        self.legacy = False
        self.meta = {}

    def encoded(self):
        return {k: v.encode("utf-8") for k, v in self.files.items()}

    def describe(self):
        return {"vp": self.vp, "cur": self.cur_text, "cfg": self.cfg_name, "entries": self.entries,
                "eol": self.eol, "plants": [p.as_dict() for p in self.plants][:12], "meta": self.meta}


# ---------------------------------------------------------------------------------------

DECOR = [
    ('__version__ = "', '"'), ("version='", "'"), ('version = "', '"'), ("badge/", "-blue.svg"),
    ("tag: ", ""), ("release (", ")"), ("ver=", ""), ("pkg==", ""), ("download/", "/pkg.tar.gz"),
    ("<b>", "</b>"), ("* ", " *"), ("[", "]"), ("rev ", ";"),
]
PEP_DECOR = [('version="', '"'), ("pep=", ""), ("pip install pkg==", ""), ("pypi/", "/json"), ("wheel-", "-py3")]
PARTIALS = ["copyright (c) 2018-YYYY", "(c) YYYY acme", "built YYYY-0M-0D", "since YYYY.MM", "yearly YYYY"]
PARTIALS_SEMVER = ["api/vMAJOR/", "compat >=MAJOR.MINOR", "series MAJOR.x"]

FILLER_WORDS = ["lorem", "ipsum", "dolor", "sit", "amet", "foo", "bar", "the", "quick", "brown", "fox", "jumps",
                "over", "lazy", "dog", "alpha-numeric", "n/a", "e.g.", "--", "#", "//", "::", "=>", "value", "x=y"]

NAMES = ["a.txt", "b.md", "src/pkg/__init__.py", "docs/conf.py", "c.cfg", "d.rst", "e.json", "f.yaml"]


def esc_pattern_literal(s):
    """literal text -> pattern text (brackets escaped)"""
    return s.replace("[", "\\[").replace("]", "\\]")


def plain_filler(R, n_words=None):
    n = n_words if n_words is not None else R.randint(0, 6)
    return " ".join(R.choice(FILLER_WORDS) for _ in range(n))


UNI_POOL = ("äöüßéèñçøå" "ΑΒΓδεζ" "Привет" "日本語中文" "한국어" "🙂🚀𝔘𝕟𝕚" " ​  ﻿\u0085"
            "\x00\x01\x07\x0b\x0c\x1b\x7f" ".*+?()[]{}|^$\\/-_=<>\"'`~!@#%&,;: \t")


def unicode_filler(R, n=None):
    n = n if n is not None else R.randint(0, 24)
    out = []
    for _ in range(n):
        r = R.random()
        if r < 0.55:
            out.append(R.choice(UNI_POOL))
        elif r < 0.8:
            out.append(R.choice("abcdefghijklmnopqrstuvwxyz "))
        else:
            cp = R.choice([R.randint(0x20, 0x7E), R.randint(0xA0, 0x2FF), R.randint(0x370, 0x52F),
                           R.randint(0x4E00, 0x4FFF), R.randint(0x1F300, 0x1F5FF), R.randint(0xE000, 0xE0FF)])
            ch = chr(cp)
            if ch.isdigit() or ch.isupper() or ch in "\r\n":
                ch = "~"
            out.append(ch)
    s = "".join(out)
    # no ASCII digits / upper-case letters / EOL characters in filler (digits would extend versions,
    # non-ASCII Nd digits would match legacy \d)
    return "".join(c for c in s if not (c.isdigit() or c.isupper() or c in "\r\n" or c.isnumeric()))


def search_patterns_for(R, vp, names, cur_text, n, legacy=False, allow_pep=True, allow_partial=True):
    """n distinct raw search patterns for one file. A bare {version}/{pep440_version} matches inside every
    decorated occurrence, so a file gets EITHER one bare pattern OR decorated ones (distinct decorations)."""
    pats = []
    pep_ok = allow_pep and is_pep440(cur_text)
    partial_cands = []
    if allow_partial and not legacy:
        for c in PARTIALS:
            need = set(ref.parts_in(ref.parse_pattern(c)))
            if all(_determined(names, x) for x in need):
                partial_cands.append(c)
        if "MAJOR" in names and "MINOR" in names:
            partial_cands += PARTIALS_SEMVER
    # search patterns that carry the same field twice: a calendar stamp next to the full version
    combo_cands = []
    if not legacy and allow_partial:
        for c in ("released 0D/0M/YYYY as {version}", "{version} (YYYY-0M)", "YYYY: {version}"):
            need = set(ref.parts_in(ref.parse_pattern(c.replace("{version}", ""))))
            if all(_determined(names, x) for x in need):
                combo_cands.append(c)
    bare_mode = R.random() < 0.3
    if bare_mode:
        pats.append("{pep440_version}" if (pep_ok and R.random() < 0.3) else "{version}")
    decor = list(DECOR)
    pdecor = list(PEP_DECOR)
    R.shuffle(decor)
    R.shuffle(pdecor)
    R.shuffle(partial_cands)
    tries = 0
    while len(pats) < n and tries < 20:
        tries += 1
        r = R.random()
        p = None
        if r < 0.5 and not bare_mode and decor:
            a, b = decor.pop()
            p = esc_pattern_literal(a) + "{version}" + esc_pattern_literal(b)
        elif r < 0.8 and not bare_mode and pep_ok and pdecor:
            a, b = pdecor.pop()
            p = esc_pattern_literal(a) + "{pep440_version}" + esc_pattern_literal(b)
        elif combo_cands and not bare_mode and R.random() < 0.5:
            p = combo_cands.pop()
        elif partial_cands:
            p = partial_cands.pop()
        if p is None:
            continue
        if legacy:
            p = p.replace("\\[", "(").replace("\\]", ")")
        elif ("{version}" in p or "{pep440_version}" in p) and not bare_mode and R.random() < 0.2:
            p += "$"      # anchored at the end of the line (README style): the occurrence ends its line
        if p not in pats and p + "$" not in pats and p.rstrip("$") not in pats:
            pats.append(p)
    return pats


def is_end_anchored(raw):
    return raw.endswith("$") and not raw.endswith("\\$")


def _determined(names, part):
    """is the value of calendar `part` fixed by a version of a pattern with parts `names`?"""
    has_year = any(n in names for n in ("YYYY", "YY", "0Y"))
    has_month = any(n in names for n in ("MM", "0M"))
    has_dom = any(n in names for n in ("DD", "0D"))
    has_doy = any(n in names for n in ("JJJ", "00J"))
    full = has_year and ((has_month and has_dom) or has_doy)
    f = ref.FIELD[part]
    if f == "year_y":
        return has_year
    if f == "month":
        return has_month or full
    if f == "dom":
        return has_dom or full
    return False


def _phys_lines(text):
    """[(offset, line)] physical lines, splitting on \\r\\n, \\r and \\n"""
    out = []
    pos = 0
    for m in re.finditer(r"\r\n|\r|\n", text):
        out.append((pos, text[pos:m.start()]))
        pos = m.end()
    out.append((pos, text[pos:]))
    return out


def prove_unambiguous(proj):
    """R1 proof obligation described in the module docstring. Returns None if proven, else a reason."""
    by_file = {}
    for pl in proj.plants:
        by_file.setdefault(pl.file, []).append(pl)
    for fn, plants in by_file.items():
        text = proj.files[fn]
        norms = {}
        for pl in plants:
            norms.setdefault(pl.norm, pl.ast)
        lines = _phys_lines(text)
        for norm, ast in norms.items():
            own = [(pl.start, pl.end) for pl in plants if pl.norm == norm]
            per_line = {}
            for off, line in lines:
                if not line:
                    continue
                for (s, e) in ref.find_all(ast, line):
                    a, b = off + s, off + e
                    holder = [o for o in own if o[0] <= a and b <= o[1]]
                    if not holder:
                        return f"stray-match:{norm!r}@{fn}:{a}-{b}"
                    per_line.setdefault(off, set()).add(holder[0])
            for off, hs in per_line.items():
                if len(hs) > 1:
                    return "two-occurrences-of-one-pattern-on-a-line"
            # every planted occurrence must be found in full
            found_full = set()
            for off, line in lines:
                for (s, e) in ref.find_all(ast, line):
                    if (off + s, off + e) in own:
                        found_full.add((off + s, off + e))
            if set(own) - found_full:
                return f"planted-text-not-recognised:{norm!r}"
        # spans of different patterns must not overlap or touch (bumpver's overlap filter is inclusive)
        spans = sorted((pl.start, pl.end) for pl in plants)
        for (a, b), (c, d) in zip(spans, spans[1:]):
            if c <= b:
                return "plants-touch"
    return None


def build_config(proj, R, quote=True, extra=None):
    """Serialise the configuration (TOML or INI) with current_version = proj.cur_text"""
    extra = extra or {}
    fmt = proj.fmt
    head = [proj.meta["cfg_comment"]] if proj.meta.get("cfg_comment") else []
    if fmt == "toml":
        sect = "tool.bumpver" if proj.cfg_name == "pyproject.toml" else "bumpver"
        lines = head + [f"[{sect}]", f"current_version = {toml_str(proj.cur_text)}",
                 f"version_pattern = {toml_str(proj.vp)}"]
        for k, v in extra.items():
            lines.append(f"{k} = {toml_str(v) if isinstance(v, str) else str(v).lower()}")
        lines += ["", f"[{sect}.file_patterns]"]
        for key, pats in proj.entries:
            lines.append(f"{toml_str(key)} = [")
            for p in pats:
                lines.append(f"    {toml_str(p)},")
            lines.append("]")
        return "\n".join(lines) + "\n"
    q = '"' if quote else ""
    lines = head + ["[bumpver]", f"current_version = {q}{proj.cur_text}{q}", f"version_pattern = {q}{proj.vp}{q}"]
    for k, v in extra.items():
        lines.append(f"{k} = {v}")
    lines += ["", "[bumpver:file_patterns]"]
    for i, (key, pats) in enumerate(proj.entries):
        # layouts: patterns on continuation lines; or the first pattern on the key's own line (chosen
        # deterministically from the entry so that rebuilding the config gives the same text)
        inline = (len(key) + len(pats[0]) + i) % 3 == 0 and not pats[0].startswith(("#", ";"))
        if inline:
            lines.append(f"{key} = {pats[0]}")
            rest = pats[1:]
        else:
            lines.append(f"{key} =")
            rest = pats
        for p in rest:
            lines.append(f"    {p}")
    return "\n".join(lines) + "\n"


def cfg_self_pattern(proj, quote=True):
    if proj.fmt == "toml" or quote:
        return 'current_version = "{version}"'
    return "current_version = {version}"


def ini_safe(p):
    return not (p.startswith("#") or p.startswith(";") or p != p.strip() or "\n" in p or p.startswith("["))


def normalize(bvmods, vp, raw, legacy):
    if legacy:
        return bvmods["v1patterns"]._normalized_pattern(vp, raw)
    return bvmods["v2patterns"].normalize_pattern(vp, raw)


def _week53(names, st):
    return ((st.get("week_w") == 53 and any(n in names for n in ("WW", "0W")))
            or (st.get("week_u") == 53 and any(n in names for n in ("UU", "0U"))))


def gen_project(R, bvmods, today, *, eol_choices=("\n",), filler="plain", legacy=False, n_files=None,
                max_patterns=4, vp=None, state=None, shared_line_p=0.35, cfg_fmt=None, globs=True, aliases=True,
                allow_partial=True, commit_cfg=None, bom_p=0.0, repeat_p=0.3, repeat_in_mixed=False):
    """Generate one project. Returns (Project, None) or (None, discard_reason)."""
    proj = Project()
    proj.legacy = legacy
    if vp is None:
        for _ in range(20):
            vp = gen.gen_pattern(R, pep_bias=True)
            if " " not in vp:
                break
    proj.vp = vp
    try:
        ast = ref.parse_pattern(vp)
    except ref.PatternSyntaxError:
        return None, "bad-pattern"
    names = list(ref.parts_in(ast))
    if state is None:
        _d, state = gen.gen_state(R, names)
    rs = gen.reachable(ast, state, today)
    if rs is None:
        return None, "unreachable-state"
    proj.cur_text, proj.cur_state = rs
    if ref.n_full_parses(ast, proj.cur_text) != 1:
        return None, "ambiguous-text"
    if _week53(names, proj.cur_state):
        return None, "week53-current-version(known finding, README range 0..52)"
    if proj.cur_text.strip("'\" ") != proj.cur_text or not proj.cur_text:
        return None, "version-text-stripped-by-loader"
    if vp.strip("'\" ") != vp:
        return None, "pattern-stripped-by-loader"
    fmt = cfg_fmt or R.choice(["toml", "toml", "toml", "cfg"])
    proj.fmt = fmt
    proj.cfg_name = R.choice(["bumpver.toml", "pyproject.toml", ".bumpver.toml"]) if fmt == "toml" else "setup.cfg"
    quote = True if fmt == "toml" else R.random() < 0.6
    nf = n_files if n_files is not None else R.randint(1, 5)
    fnames = R.sample(NAMES, nf)
    v2p = bvmods["v2patterns"]
    v2v = bvmods["v2version"]

    # patterns per file and entries (plain, glob, repeated)
    per_file = {}
    entries = []
    for fn in fnames:
        pats = search_patterns_for(R, vp, names, proj.cur_text, R.randint(1, max_patterns), legacy=legacy,
                                   allow_partial=allow_partial)
        if fmt == "cfg":
            pats = [p for p in pats if ini_safe(p)]
        if not pats:
            return None, "no-patterns"
        key = fn
        if globs and R.random() < 0.2:
            base, dot, ext = fn.rpartition(".")
            key = base + ".*" if R.random() < 0.5 else fn.replace(fn.split("/")[-1][0], "?", 1) if "/" not in fn else fn
        if globs and R.random() < 0.12 and len(pats) > 1:
            # repeated entry: the same file through two keys (plain + glob)
            k = R.randint(1, len(pats) - 1)
            base, dot, ext = fn.rpartition(".")
            entries.append((fn, pats[:k]))
            dirs = sorted({n.split("/")[0] for n in fnames if "/" in n})
            alias = [dirs[0] + "/../" + fn] if aliases and dirs and "/" not in fn else []   # same file, path not normalised
            entries.append((R.choice([base + ".*", "./" + fn, "./" + fn] + alias * 2), pats[k:]))
        else:
            entries.append((key, pats))
        per_file[fn] = pats
    explicit_cfg = R.random() < 0.5
    selfp = cfg_self_pattern(proj, quote)
    extra_selfp = None
    if explicit_cfg:
        pos = R.randint(0, len(entries))
        own = [selfp]
        if R.random() < 0.4:
            # the config file lists itself with a second pattern (a comment line carrying the version)
            extra_selfp = "released as {version} !"
            own = [selfp, extra_selfp] if R.random() < 0.5 else [extra_selfp, selfp]
            if R.random() < 0.3:
                # ... and leaves the pattern for the current_version line to bumpver (which "always adds a pattern
                # for the config section itself")
                own = [extra_selfp]
                proj.meta["own_line_pattern_left_to_bumpver"] = True
        cfg_key = proj.cfg_name
        if extra_selfp and R.random() < 0.35:
            # ... under another spelling of its own name
            cfg_key = "./" + proj.cfg_name
            proj.meta["cfg_listed_under_alias"] = True
        entries.insert(pos, (cfg_key, own))
    if fmt == "cfg" and any(("=" in k or ":" in k) for k, _ in entries):
        return None, "ini-key"
    proj.entries = entries

    # effective patterns per file (glob expansion over the generated names only; globs are built so that
    # they match exactly one generated file)
    import fnmatch
    eff = {}
    order = []
    allnames = fnames + [proj.cfg_name]
    for key, pats in entries:
        ckey = key[2:] if key.startswith("./") else key
        if "/../" in ckey:
            ckey = os.path.normpath(ckey)
            proj.meta["aliased_path_entries"] = proj.meta.get("aliased_path_entries", 0) + 1
        matched = [n for n in allnames if (n == ckey or (("*" in ckey or "?" in ckey) and
                                                        fnmatch.fnmatchcase(n, ckey) and n.count("/") == ckey.count("/")))]
        if not matched:
            return None, "glob-matches-nothing"
        for n in sorted(matched):
            if n not in eff:
                eff[n] = []
                order.append(n)
            eff[n].extend(pats)
    if proj.cfg_name not in eff:
        eff[proj.cfg_name] = [selfp]
        order.append(proj.cfg_name)
    for n, pats in eff.items():
        if len(set(pats)) != len(pats):
            return None, "duplicate-pattern"
    proj.file_patterns = eff
    proj.write_order = order

    # render occurrences
    old_vinfo = None

    def occurrence(raw):
        nonlocal old_vinfo
        # a trailing `$` anchors the match at the end of the line and is not part of the text
        norm = normalize(bvmods, vp, raw[:-1] if is_end_anchored(raw) else raw, legacy)
        kind = "pep440" if "{pep440_version}" in raw else ("version" if "{version}" in raw else "partial")
        if kind == "pep440":
            # what bumpver itself wrote last time (setup only; the oracle after the update is independent)
            if old_vinfo is None:
                old_vinfo = v2v.parse_version_info(proj.cur_text, vp)
            text = v2v.format_version(old_vinfo, norm)
            a_ = ref.parse_pattern(norm)
        else:
            a_ = ref.parse_pattern(norm)
            text = ref.render(a_, proj.cur_state)
        return norm, kind, a_, text

    fill = plain_filler if filler == "plain" else unicode_filler
    for fn in fnames:
        eol_mode = R.choice(eol_choices)
        pats = list(eff[fn])
        if eol_mode == "mixed" and any(is_end_anchored(p) for p in pats):
            # with mixed separators bumpver's "line" is not the physical line, `$` has no physical-line meaning there
            eol_mode = R.choice([e for e in eol_choices if e != "mixed"] or ["\n"])
        proj.eol[fn] = {"\n": "LF", "\r\n": "CRLF", "\r": "CR"}.get(eol_mode, "mixed")
        segs = []   # list of line segment lists: each line = list of (text, plant-or-None)
        pending = pats[:]
        R.shuffle(pending)
        # a pattern may occur on several lines of a file (every such line is rewritten); extras get own lines
        extras = []
        if (eol_mode != "mixed" or repeat_in_mixed) and repeat_p and R.random() < repeat_p:
            extras = [R.choice(pats) for _ in range(R.randint(1, 2))]
        n_pre = R.randint(0, 4)
        lines = [[(fill(R), None)] for _ in range(n_pre)]
        while pending:
            k = 1
            if len(pending) > 1 and R.random() < shared_line_p and eol_mode != "mixed":
                k = R.randint(2, min(3, len(pending)))
            group = [pending.pop() for _ in range(k)]
            # an end-anchored pattern goes last on its line and nothing follows it
            group.sort(key=is_end_anchored)
            while sum(1 for g in group if is_end_anchored(g)) > 1:
                pending.append(group.pop())
            line = [(fill(R, R.randint(0, 3)) + (" " if R.random() < 0.8 else ""), None)]
            for gi, raw in enumerate(group):
                norm, kind, a_, text = occurrence(raw)
                line.append((text, (raw, norm, kind, a_)))
                sep = R.choice([" ", "  ", " | ", ", ", "; ", "\t"])
                if is_end_anchored(raw):
                    proj.meta["end_anchored_patterns"] = proj.meta.get("end_anchored_patterns", 0) + 1
                    continue
                line.append(((sep if gi < len(group) - 1 else R.choice(["", " ", " # ", "\t"])) + (fill(R, R.randint(0, 2)) if gi == len(group) - 1 else ""), None))
            lines.append(line)
            for _ in range(R.randint(0, 2)):
                lines.append([(fill(R), None)])
        for raw in extras:
            norm, kind, a_, text = occurrence(raw)
            lines.append([(fill(R, R.randint(0, 2)) + " ", None), (text, (raw, norm, kind, a_)),
                          ("" if is_end_anchored(raw) else R.choice(["", " ", " # again"]), None)])
            proj.meta["repeated_occurrences"] = proj.meta.get("repeated_occurrences", 0) + 1
            for _ in range(R.randint(0, 1)):
                lines.append([(fill(R), None)])
        final_nl = R.random() < 0.7
        if bom_p and R.random() < bom_p:
            lines[0][0] = ("\ufeff" + lines[0][0][0], lines[0][0][1])
            proj.meta.setdefault("bom_files", []).append(fn)
        out = []
        pos = 0
        plants = []
        for li, line in enumerate(lines):
            for text, pl in line:
                if pl is not None:
                    raw, norm, kind, a_ = pl
                    plants.append(Plant(file=fn, start=pos, end=pos + len(text), kind=kind, raw=raw, norm=norm,
                                        ast=a_, text=text))
                out.append(text)
                pos += len(text)
            if li < len(lines) - 1 or final_nl:
                e = eol_mode if eol_mode != "mixed" else R.choice(["\n", "\r\n", "\r"])
                out.append(e)
                pos += len(e)
        content = "".join(out)
        if eol_mode == "mixed":
            # bumpver splits on the FIRST separator kind it detects; make sure at least two kinds occur
            if len({m.group(0) for m in re.finditer(r"\r\n|\r|\n", content)}) < 2:
                proj.eol[fn] = "mixed-degenerate"
        proj.files[fn] = content
        proj.plants.extend(plants)

    # config file + its own planted line
    proj.meta["cfg_comment"] = f"# released as {proj.cur_text} !" if extra_selfp else None
    cfg_text = build_config(proj, R, quote=quote, extra=commit_cfg)
    proj.meta["cfg_extra"] = commit_cfg
    proj.files[proj.cfg_name] = cfg_text
    q = '"' if (fmt == "toml" or quote) else ""
    needle = f"current_version = {q}{proj.cur_text}{q}"
    idx = cfg_text.find(needle)
    if idx < 0 or cfg_text.find(needle, idx + 1) >= 0:
        return None, "config-self-line"
    norm = normalize(bvmods, vp, selfp, legacy)
    proj.plants.append(Plant(file=proj.cfg_name, start=idx, end=idx + len(needle), kind="version", raw=selfp,
                             norm=norm, ast=ref.parse_pattern(norm), text=needle))
    if extra_selfp:
        needle2 = f"released as {proj.cur_text} !"
        idx2 = cfg_text.find(needle2)
        norm2 = normalize(bvmods, vp, extra_selfp, legacy)
        proj.plants.append(Plant(file=proj.cfg_name, start=idx2, end=idx2 + len(needle2), kind="version", raw=extra_selfp,
                                 norm=norm2, ast=ref.parse_pattern(norm2), text=needle2))
    proj.eol[proj.cfg_name] = "LF"
    # every rendered occurrence must be non-empty (bumpver ignores empty matches)
    if any(pl.end == pl.start for pl in proj.plants):
        return None, "empty-occurrence"
    # pep440 occurrences must be delimited by a character outside the PEP 440 alphabet
    for pl in proj.plants:
        if pl.kind == "pep440":
            t = proj.files[pl.file]
            if pl.end < len(t) and t[pl.end] in PEP_ALPHABET:
                return None, "pep440-not-delimited"
            try:
                if Version(t[pl.start + len(_pep_prefix(pl)):pl.end - len(_pep_suffix(pl))]) != Version(proj.cur_text):
                    return None, "pep440-rendering-differs(C15)"
            except InvalidVersion:
                return None, "pep440-rendering-invalid(C15)"
    why = prove_unambiguous(proj)
    if why:
        return None, "layout:" + why.split(":")[0]
    proj.meta = {"cfg_comment": proj.meta.get("cfg_comment"), "repeated_occurrences": proj.meta.get("repeated_occurrences", 0), "cfg_extra": commit_cfg, "bom_files": proj.meta.get("bom_files", []), "n_files": nf, "fmt": fmt, "explicit_cfg": explicit_cfg, "cfg_listed_under_alias": proj.meta.get("cfg_listed_under_alias", False), "quote": quote,
                 "aliased_path_entries": proj.meta.get("aliased_path_entries", 0),
                 "own_line_pattern_left_to_bumpver": proj.meta.get("own_line_pattern_left_to_bumpver", False),
                 "end_anchored_patterns": proj.meta.get("end_anchored_patterns", 0),
                 "shared_lines": sum(1 for _ in _shared_lines(proj)), "kinds": sorted({p.kind for p in proj.plants}),
                 "eols": sorted(set(proj.eol.values())), "globs": sum(1 for k, _ in entries if "*" in k or "?" in k)}
    return proj, None


def _pep_prefix(pl):
    return _unesc(pl.raw.split("{pep440_version}")[0])


def _pep_suffix(pl):
    raw = pl.raw[:-1] if is_end_anchored(pl.raw) else pl.raw
    return _unesc(raw.split("{pep440_version}")[1])


def _unesc(s):
    return s.replace("\\[", "[").replace("\\]", "]")


def in_chunk_after_same_pattern(proj, pl):
    """Mixed line endings: bumpver splits a file at ONE separator kind (CRLF if present, else CR, else LF), so several
    physical lines can form one of its 'lines'. True if `pl` lies in such a chunk behind an earlier occurrence of the
    same pattern (of which only the first is rewritten)."""
    text = proj.files[pl.file]
    sep = "\r\n" if "\r\n" in text else ("\r" if "\r" in text else "\n")
    start = text.rfind(sep, 0, pl.start)
    start = 0 if start < 0 else start + len(sep)
    return any(q is not pl and q.file == pl.file and q.raw == pl.raw and start <= q.start < pl.start for q in proj.plants)


def shares_line(proj, pl):
    """does another planted occurrence sit on the same physical line as `pl`?"""
    text = proj.files[pl.file]
    for off, line in _phys_lines(text):
        if off <= pl.start <= off + len(line):
            return sum(1 for q in proj.plants if q.file == pl.file and off <= q.start <= off + len(line)) > 1
    return False


def _shared_lines(proj):
    for fn in proj.files:
        text = proj.files[fn]
        lines = _phys_lines(text)
        for off, line in lines:
            n = sum(1 for pl in proj.plants if pl.file == fn and off <= pl.start < off + len(line) + 1)
            if n > 1:
                yield (fn, off)


def expected_text(pl, new_state, new_text):
    """Expected bytes of a planted occurrence after the update (None = semantic check, pep440 kind)."""
    if pl.kind == "pep440":
        return None
    return ref.render(pl.ast, new_state)


def check_after(proj, after, new_state, new_text, check_pep=True, collect=None):
    """Compare the files after a successful update with the expectation.
    Returns list of (class, message[, plant]). `after`: {relpath: bytes}. If `collect` is a list, the
    occurrences as found after the update are appended to it as Plant objects (for multi-step histories)."""
    problems = []
    for fn, old in proj.files.items():
        if fn not in after:
            problems.append(("file-missing", fn))
            continue
        try:
            new = after[fn].decode("utf-8")
        except UnicodeDecodeError:
            problems.append(("not-utf8-after-update", fn))
            continue
        plants = sorted((pl for pl in proj.plants if pl.file == fn), key=lambda p: p.start)
        opos = npos = 0
        ok = True
        for pl in plants:
            seg = old[opos:pl.start]
            if new[npos:npos + len(seg)] != seg:
                problems.append(("bytes-outside-span-changed",
                                 f"{fn}: before occurrence of {pl.raw!r}: {new[npos:npos + len(seg) + 20]!r} != {seg!r}"))
                ok = False
                break
            npos += len(seg)
            start_new = npos
            exp = expected_text(pl, new_state, new_text)
            if exp is not None:
                got = new[npos:npos + len(exp)]
                if got == exp and pl.text != exp and pl.text.startswith(exp) and new.startswith(pl.text, npos):
                    # the new text is a prefix of the old one (`v1.2` after `v1.2-dev-1`): what follows decides
                    # whether the occurrence was rewritten or is still the old text
                    nxt = min((q.start for q in plants if q.start >= pl.end), default=len(old))
                    follow = old[pl.end:nxt]
                    if not new.startswith(follow, npos + len(exp)) and new.startswith(follow, npos + len(pl.text)):
                        got = pl.text
                if got != exp:
                    problems.append(("stale-or-wrong-occurrence",
                                     f"{fn}: pattern {pl.raw!r}: expected {exp!r} got {new[npos:npos + len(exp) + 10]!r}", pl))
                    ok = False
                    break
                npos += len(exp)
            else:
                pre, suf = _pep_prefix(pl), _pep_suffix(pl)
                if new[npos:npos + len(pre)] != pre:
                    problems.append(("stale-or-wrong-occurrence", f"{fn}: {pl.raw!r} prefix lost", pl))
                    ok = False
                    break
                npos += len(pre)
                j = npos
                # the version text ends where the known suffix (or a delimiter) begins
                if suf:
                    j = new.find(suf, npos)
                    if j < 0:
                        problems.append(("stale-or-wrong-occurrence", f"{fn}: {pl.raw!r} suffix lost", pl))
                        ok = False
                        break
                else:
                    while j < len(new) and new[j] in PEP_ALPHABET:
                        j += 1
                x = new[npos:j]
                if check_pep:
                    try:
                        if Version(x) != Version(new_text):
                            problems.append(("pep440-occurrence-not-equal",
                                             f"{fn}: {pl.raw!r}: wrote {x!r} for version {new_text!r}"))
                    except InvalidVersion:
                        problems.append(("pep440-occurrence-invalid", f"{fn}: {pl.raw!r}: wrote {x!r} for {new_text!r}"))
                npos = j + len(suf)
            if collect is not None:
                collect.append(Plant(file=fn, start=start_new, end=npos, kind=pl.kind, raw=pl.raw, norm=pl.norm,
                                     ast=pl.ast, text=new[start_new:npos]))
            opos = pl.end
        if ok:
            if new[npos:] != old[opos:]:
                problems.append(("bytes-outside-span-changed", f"{fn}: tail {new[npos:npos + 40]!r} != {old[opos:opos + 40]!r}"))
    for fn in after:
        if fn not in proj.files:
            problems.append(("unexpected-file", fn))
    return problems


def advance(proj, after, new_state, new_text, plants):
    """The project as it is after a verified update (files = what is on disk, occurrences re-located)."""
    import copy
    q = copy.copy(proj)
    q.files = {fn: after[fn].decode("utf-8") for fn in proj.files}
    q.plants = plants
    q.cur_text = new_text
    q.cur_state = new_state
    return q




# ---------------------------------------------------------------------------------------
# legacy ({..}) projects: simple hand-shaped layouts (filler has no digits, so nothing else can match)

LEGACY_VPS = ["{pycalver}", "{semver}", "v{year}{month}{build}{release}", "{year}{build}{release}",
              "{year}.{month}.{dom}", "{MAJOR}.{MINOR}.{PATCH}{release}", "{calver}{build}{release}", "{year}.{doy}.{build_no}"]
LEGACY_DECOR = [('__version__ = "', '"'), ("version='", "'"), ("tag: ", " ;"), ("release (", ")"), ("pkg==", " #")]


def gen_legacy_project(R, bvmods, *, n_files=None, eol_choices=("\n",)):
    import datetime as dt
    from bvmon import ref_v1
    proj = Project()
    proj.legacy = True
    vp = R.choice(LEGACY_VPS)
    proj.vp = vp
    ast = ref_v1.parse_pattern(vp)
    names = ref_v1.parts_in(ast)
    d = dt.date(2000, 1, 1) + dt.timedelta(R.randint(0, 36000))
    has_tag = any(n in names for n in ("release", "tag"))
    st = ref_v1.state_from_date(d, R.choice(["0001", "0999", "1000", "1001", "1999", "22000"]),
                                R.choice(ref_v1.TAGS) if has_tag else "final", R.choice([0, 1, 9]), R.choice([0, 9, 10]),
                                R.choice([0, 1, 99]))
    proj.cur_state = st
    proj.cur_text = ref_v1.render(ast, st)
    proj.fmt = "toml"
    proj.cfg_name = R.choice(["bumpver.toml", "pyproject.toml"])
    nf = n_files if n_files is not None else R.randint(1, 5)
    fnames = R.sample(NAMES, nf)
    entries = []
    for fn in fnames:
        decs = R.sample(LEGACY_DECOR, R.randint(1, 3))
        pats = [a + "{version}" + b for a, b in decs]
        if R.random() < 0.3:
            # regex anchors work in legacy patterns too: the occurrence starts / ends its line
            i = R.randrange(len(pats))
            pats[i] = R.choice(["^" + pats[i], pats[i] + "$", "^" + pats[i] + "$"])
            proj.meta["legacy_anchored_patterns"] = proj.meta.get("legacy_anchored_patterns", 0) + 1
        entries.append((fn, pats))
    selfp = 'current_version = "{version}"'
    explicit = R.random() < 0.5
    if explicit:
        entries.insert(R.randint(0, len(entries)), (proj.cfg_name, [selfp]))
    proj.entries = entries
    proj.file_patterns = {k: list(v) for k, v in entries}
    proj.write_order = [k for k, _ in entries]
    if not explicit:
        proj.file_patterns[proj.cfg_name] = [selfp]
        proj.write_order.append(proj.cfg_name)
    for fn, pats in entries:
        if fn == proj.cfg_name:
            continue
        eol = R.choice(eol_choices)
        proj.eol[fn] = {"\n": "LF", "\r\n": "CRLF", "\r": "CR"}.get(eol, "LF")
        out = []
        pos = 0
        order = list(pats)
        R.shuffle(order)
        share_next = False
        for i, raw in enumerate(order):
            if not share_next:
                for _ in range(R.randint(0, 2)):
                    t = plain_filler(R) + eol
                    out.append(t)
                    pos += len(t)
            core = raw[1:] if raw.startswith("^") else raw
            core = core[:-1] if core.endswith("$") else core
            if raw.startswith("^") and share_next:
                # cannot start the line here: finish the current line first
                out[-1] = out[-1][:-3] + eol
                pos += len(eol) - 3
                share_next = False
            pre = "" if raw.startswith("^") else plain_filler(R, R.randint(0, 2)) + " "
            occ = core.replace("{version}", proj.cur_text)
            out.append(pre)
            pos += len(pre)
            proj.plants.append(Plant(file=fn, start=pos, end=pos + len(occ), kind="version", raw=raw,
                                     norm=raw.replace("{version}", vp), ast=None, text=occ))
            # two different patterns may share a line (each is rewritten at its own place)
            share_next = i + 1 < len(order) and R.random() < 0.3 and not raw.endswith("$")
            tail = " | " if share_next else eol
            out.append(occ + tail)
            pos += len(occ) + len(tail)
            if share_next:
                proj.meta["shared_lines"] = proj.meta.get("shared_lines", 0) + 1
        proj.files[fn] = "".join(out)
    proj.files[proj.cfg_name] = build_config(proj, R)
    needle = f'current_version = "{proj.cur_text}"'
    idx = proj.files[proj.cfg_name].find(needle)
    proj.plants.append(Plant(file=proj.cfg_name, start=idx, end=idx + len(needle), kind="version", raw=selfp,
                             norm=selfp.replace("{version}", vp), ast=None, text=needle))
    proj.eol[proj.cfg_name] = "LF"
    proj.meta = {"n_files": nf, "fmt": "toml", "explicit_cfg": explicit, "legacy": True, "kinds": ["version"],
                 "legacy_anchored_patterns": proj.meta.get("legacy_anchored_patterns", 0),
                 "eols": sorted(set(proj.eol.values())), "globs": 0, "shared_lines": proj.meta.get("shared_lines", 0),
                 "cfg_extra": proj.meta.get("cfg_extra")}
    return proj, None


def expected_files_legacy(proj, new_text):
    """{relpath: str} after a successful legacy update (every occurrence shows the new version)"""
    out = {}
    for fn, old in proj.files.items():
        plants = sorted((pl for pl in proj.plants if pl.file == fn), key=lambda p: p.start, reverse=True)
        t = old
        for pl in plants:
            t = t[:pl.start] + pl.text.replace(proj.cur_text, new_text) + t[pl.end:]
        out[fn] = t
    return out


def reorder_entries(proj, perm, R=None):
    """Same project with the file entries of the configuration in another order (config text rebuilt)."""
    import copy
    q = copy.copy(proj)
    q.entries = [proj.entries[i] for i in perm]
    q.files = dict(proj.files)
    # quoting style of the original config is kept: rebuild with the same settings
    quote = '"' + proj.cur_text + '"' in proj.files[proj.cfg_name]
    q.files[proj.cfg_name] = build_config(q, R, quote=quote, extra=proj.meta.get("cfg_extra"))
    # recompute write order (first appearance; implicit config last)
    import fnmatch
    order = []
    names = [n for n in proj.files]
    for key, _p in q.entries:
        key = key[2:] if key.startswith("./") else key
        for n in sorted(names):
            if (n == key or (("*" in key or "?" in key) and fnmatch.fnmatchcase(n, key) and n.count("/") == key.count("/"))) \
                    and n not in order:
                order.append(n)
    if proj.cfg_name not in order:
        order.append(proj.cfg_name)
    q.write_order = order
    # the config's own planted lines moved (the current_version line, and the comment line of an extra pattern)
    q.plants = [pl for pl in proj.plants if pl.file != proj.cfg_name]
    for old in [pl for pl in proj.plants if pl.file == proj.cfg_name]:
        idx = q.files[proj.cfg_name].find(old.text)
        q.plants.append(Plant(file=proj.cfg_name, start=idx, end=idx + len(old.text), kind=old.kind, raw=old.raw,
                              norm=old.norm, ast=old.ast, text=old.text))
    return q


def with_extra_pattern(proj, fn, raw, R=None):
    """Same project with `raw` appended to the pattern list of the entry whose key is exactly `fn` (config text rebuilt;
    the files themselves are unchanged). None if no such entry exists."""
    import copy
    idx = [i for i, (key, _p) in enumerate(proj.entries) if key == fn]
    if len(idx) != 1 or any(key != fn and fn in key for key, _p in proj.entries):
        return None
    q = copy.copy(proj)
    q.entries = [(key, list(pats) + ([raw] if i == idx[0] else [])) for i, (key, pats) in enumerate(proj.entries)]
    q.files = dict(proj.files)
    quote = '"' + proj.cur_text + '"' in proj.files[proj.cfg_name]
    q.files[proj.cfg_name] = build_config(q, R, quote=quote, extra=proj.meta.get("cfg_extra"))
    old = [pl for pl in proj.plants if pl.file == proj.cfg_name]
    if len(old) != 1:
        return None
    pos = q.files[proj.cfg_name].find(old[0].text)
    if pos < 0:
        return None
    q.plants = [pl for pl in proj.plants if pl.file != proj.cfg_name]
    q.plants.append(Plant(file=proj.cfg_name, start=pos, end=pos + len(old[0].text), kind=old[0].kind, raw=old[0].raw,
                          norm=old[0].norm, ast=old[0].ast, text=old[0].text))
    return q


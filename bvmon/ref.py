"""Reference models, written from the README part table and calendar arithmetic.

R1  pattern AST, renderer, recogniser (backtracking parser; NO regex tables, NO strftime)
R2  bump model
R3  BUILD successor

They are deliberately independent of bumpver's regex tables / format functions: the monitors
compare what the real code did with what these predict.
"""
import datetime as dt

PARTS = ["YYYY", "YY", "0Y", "GGGG", "GG", "0G", "Q", "MM", "0M", "DD", "0D", "JJJ", "00J",
         "WW", "0W", "UU", "0U", "VV", "0V",
         "MAJOR", "MINOR", "PATCH", "BUILD", "BLD", "PYTAG", "TAG", "NUM", "INC0", "INC1"]
PARTS_BY_LEN = sorted(PARTS, key=len, reverse=True)
FIELD = {
    "YYYY": "year_y", "YY": "year_y", "0Y": "year_y", "GGGG": "year_g", "GG": "year_g", "0G": "year_g",
    "Q": "quarter", "MM": "month", "0M": "month", "DD": "dom", "0D": "dom", "JJJ": "doy", "00J": "doy",
    "WW": "week_w", "0W": "week_w", "UU": "week_u", "0U": "week_u", "VV": "week_v", "0V": "week_v",
    "MAJOR": "major", "MINOR": "minor", "PATCH": "patch", "BUILD": "bid", "BLD": "bid",
    "PYTAG": "pytag", "TAG": "tag", "NUM": "num", "INC0": "inc0", "INC1": "inc1",
}
CAL_FIELDS = ["year_y", "year_g", "quarter", "month", "dom", "doy", "week_w", "week_u", "week_v"]
CAL_PARTS = [p for p in PARTS if FIELD[p] in CAL_FIELDS]
TAGS = {"final": "", "alpha": "a", "beta": "b", "rc": "rc", "dev": "dev", "post": "post"}
PYT = {v: k for k, v in TAGS.items()}
# "preview" is readable as a TAG text (never offered by --tag): a distinct tag whose PEP 440 form is that of rc
TAGS["preview"] = "rc"
TAG_LIST = ["final", "alpha", "beta", "rc", "dev", "post"]


class PatternSyntaxError(ValueError):
    pass


# ---- pattern AST: list of nodes ("lit", s) | ("part", name) | ("opt", [nodes])
def parse_pattern(p):
    pos = 0

    def seq(depth):
        nonlocal pos
        out = []
        lit = ""
        while pos < len(p):
            c = p[pos]
            if c == "\\" and pos + 1 < len(p) and p[pos + 1] in "[]":
                lit += p[pos + 1]
                pos += 2
                continue
            if c == "[":
                if lit:
                    out.append(("lit", lit))
                    lit = ""
                pos += 1
                out.append(("opt", seq(depth + 1)))
                continue
            if c == "]":
                if depth == 0:
                    raise PatternSyntaxError("unbalanced")
                pos += 1
                if lit:
                    out.append(("lit", lit))
                return out
            for name in PARTS_BY_LEN:
                if p.startswith(name, pos):
                    if lit:
                        out.append(("lit", lit))
                        lit = ""
                    out.append(("part", name))
                    pos += len(name)
                    break
            else:
                lit += c
                pos += 1
        if depth:
            raise PatternSyntaxError("unclosed")
        if lit:
            out.append(("lit", lit))
        return out

    return seq(0)


def parts_in(ast):
    for n in ast:
        if n[0] == "part":
            yield n[1]
        elif n[0] == "opt":
            yield from parts_in(n[1])


def shape(ast):
    """Pattern shape: part names and group structure, literals abstracted."""
    out = []
    for n in ast:
        if n[0] == "lit":
            out.append("'")
        elif n[0] == "part":
            out.append(n[1])
        else:
            out.append("[" + shape(n[1]) + "]")
    return "".join(out)


def cal_from_date(d):
    iso = d.isocalendar()
    doy0 = (d - dt.date(d.year, 1, 1)).days
    return dict(
        year_y=d.year, year_g=iso[0], quarter=(d.month - 1) // 3 + 1, month=d.month, dom=d.day, doy=doy0 + 1,
        week_w=(doy0 + 7 - d.weekday()) // 7,
        week_u=(doy0 + 7 - ((d.weekday() + 1) % 7)) // 7,
        week_v=iso[1],
    )


def render_part(name, st):
    f = FIELD[name]
    if name == "TAG":
        return st["tag"]
    if name == "PYTAG":
        return TAGS[st["tag"]]
    v = st.get(f)
    if name in ("YYYY", "GGGG"):
        return "%d" % v
    if name in ("YY", "GG"):
        return "%d" % (v % 100)
    if name in ("0Y", "0G"):
        return "%02d" % (v % 100)
    if name in ("Q", "MM", "DD", "JJJ", "WW", "UU", "VV", "MAJOR", "MINOR", "PATCH", "NUM", "INC0", "INC1"):
        return "%d" % v
    if name in ("0M", "0D", "0W", "0U", "0V"):
        return "%02d" % v
    if name == "00J":
        return "%03d" % v
    if name == "BUILD":
        return v
    if name == "BLD":
        return str(int(v))
    raise KeyError(name)


ZERO = {"MAJOR": "0", "MINOR": "0", "PATCH": "0", "NUM": "0", "INC0": "0", "TAG": "final", "PYTAG": ""}


def _render(ast, st):
    out = ""
    allzero = True
    anypart = False
    for n in ast:
        if n[0] == "lit":
            out += n[1]
        elif n[0] == "part":
            anypart = True
            t = render_part(n[1], st)
            out += t
            if not (n[1] in ZERO and ZERO[n[1]] == t):
                allzero = False
        else:
            t, z, ap = _render(n[1], st)
            if ap:
                anypart = True
                if not z:
                    allzero = False
                    out += t
    return out, allzero, anypart


NON_CALENDAR = {"MAJOR", "MINOR", "PATCH", "BUILD", "BLD", "PYTAG", "TAG", "NUM", "INC0", "INC1"}


def render_omitting(ast, st, R, p_omit=0.5):
    """A text the pattern ACCEPTS but would not render itself: optional groups that hold only non-calendar parts are
    left out (at random) although their parts are not all zero. Reading it back gives those parts their defaults."""
    out = ""
    for n in ast:
        if n[0] == "lit":
            out += n[1]
        elif n[0] == "part":
            out += render_part(n[1], st)
        else:
            inner = set(parts_in(n[1]))
            if inner and inner <= NON_CALENDAR and R.random() < p_omit:
                continue
            t, z, ap = _render(n[1], st)
            if ap and not z:
                out += render_omitting(n[1], st, R, p_omit)
    return out


def render(ast, st):
    """Rendered text. An optional group is omitted iff it contains parts and all of them are zero;
    the top level is never omitted (README: 'the part [is] omitted when 0 and added when > 0')."""
    return _render(ast, st)[0]


def render_info(ast, st):
    """(text, n_groups_omitted, n_groups_present)"""
    om = pr = 0

    def walk(nodes):
        nonlocal om, pr
        for n in nodes:
            if n[0] == "opt":
                _t, z, ap = _render(n[1], st)
                if ap and z:
                    om += 1
                elif ap:
                    pr += 1
                    walk(n[1])

    walk(ast)
    return render(ast, st), om, pr


# ---- independent recogniser (backtracking parser over the AST)
RANGES = {"Q": (1, 4), "MM": (1, 12), "0M": (1, 12), "DD": (1, 31), "0D": (1, 31), "JJJ": (1, 366), "00J": (1, 366),
          "WW": (0, 53), "0W": (0, 53), "UU": (0, 53), "0U": (0, 53), "VV": (1, 53), "0V": (1, 53)}
FIXED_W = {"0M": 2, "0D": 2, "0W": 2, "0U": 2, "0V": 2, "00J": 3}
TAG_WORDS = sorted(["preview", "final", "dev", "alpha", "beta", "post", "rc"], key=len, reverse=True)
PYTAG_WORDS = ["post", "dev", "rc", "a", "b"]


def _isdig(c):
    return "0" <= c <= "9"


def cand_part(name, s, i):
    """yield end offsets of candidate texts for part `name` at s[i:], longest first"""

    def digits(maxn=10 ** 6):
        j = i
        while j < len(s) and _isdig(s[j]) and j - i < maxn:
            j += 1
        return j

    if name in ("YYYY", "GGGG"):
        t = s[i:i + 4]
        if len(t) == 4 and all(map(_isdig, t)) and t[0] != "0":
            yield i + 4
    elif name in ("YY", "GG"):
        j = digits(2)
        for e in range(j, i, -1):
            if s[i] != "0":
                yield e
    elif name in ("0Y", "0G"):
        t = s[i:i + 2]
        if len(t) == 2 and all(map(_isdig, t)):
            yield i + 2
    elif name in RANGES:
        lo, hi = RANGES[name]
        w = FIXED_W.get(name)
        if w:
            t = s[i:i + w]
            if len(t) == w and all(map(_isdig, t)) and lo <= int(t) <= hi:
                yield i + w
        else:
            j = digits(3)
            for e in range(j, i, -1):
                t = s[i:e]
                if (t == "0" or t[0] != "0") and lo <= int(t) <= hi:
                    yield e
    elif name in ("MAJOR", "MINOR", "PATCH", "BUILD", "NUM", "INC0"):
        j = digits()
        for e in range(j, i, -1):
            yield e
    elif name in ("BLD", "INC1"):
        j = digits()
        for e in range(j, i, -1):
            if s[i] != "0":
                yield e
        if name == "BLD" and j > i and s[i] == "0":
            yield i + 1      # a BUILD of zero is written as `0` (accepted since the repair 4282b57)
    elif name == "TAG":
        for t in TAG_WORDS:
            if s.startswith(t, i):
                yield i + len(t)
    elif name == "PYTAG":
        for t in PYTAG_WORDS:
            if s.startswith(t, i):
                yield i + len(t)


def _match_from(ast, s, start, want_full, all_ends=False):
    """Backtracking match of ast at s[start:]. Returns list of (end, raw) results."""
    res = []

    def go(nodes, i, acc, k):
        if not nodes:
            return k(i, acc)
        n = nodes[0]
        rest = nodes[1:]
        if n[0] == "lit":
            if s.startswith(n[1], i):
                return go(rest, i + len(n[1]), acc, k)
            return False
        if n[0] == "part":
            for e in cand_part(n[1], s, i):
                if go(rest, e, acc + [(n[1], s[i:e])], k):
                    return True
            return False
        if go(n[1], i, acc, lambda j, a: go(rest, j, a, k)):
            return True
        return go(rest, i, acc, k)

    def fin(i, acc):
        if want_full and i != len(s):
            return False
        res.append((i, acc))
        return not all_ends  # all_ends: keep exploring every alternative

    go(ast, start, [], fin)
    return res


def parse(ast, s):
    """list of (part, rawtext) for a FULL match of s, or None"""
    r = _match_from(ast, s, 0, True)
    return r[0][1] if r else None


def n_full_parses(ast, s, limit=3):
    """number of distinct full parses (to detect ambiguous pattern/text combinations)"""
    r = _match_from(ast, s, 0, True, all_ends=True)
    seen = {tuple(raw) for _e, raw in r}
    return len(seen)


def find_all(ast, line):
    """All (start, end) spans at which the pattern can match inside `line` (every alternative)."""
    spans = set()
    for st in range(len(line) + 1):
        for e, _raw in _match_from(ast, line, st, False, all_ends=True):
            if e > st:
                spans.add((st, e))
    return spans


def default_state():
    return dict(major=0, minor=0, patch=0, num=0, inc0=0, inc1=1, bid="1000", tag="final")


def state_from_raw(raw, today):
    """Version state from parsed (part, text) pairs (documented semantics: two-digit years are 20xx;
    a full date derives all calendar fields; quarter derives from month; no calendar part => today)."""
    st = default_state()
    cal = {f: None for f in CAL_FIELDS}
    tag = pytag = None
    for name, t in raw:
        f = FIELD[name]
        if f in cal:
            v = int(t)
            if f in ("year_y", "year_g") and v < 1000:
                v += 2000
            cal[f] = v
        elif f == "bid":
            st["bid"] = t
        elif f == "tag":
            tag = t
        elif f == "pytag":
            pytag = t
        else:
            st[f] = int(t)
    if tag:
        st["tag"] = tag
    elif pytag:
        st["tag"] = PYT[pytag]
    d = None
    if cal["year_y"] and cal["doy"]:
        d = dt.date(cal["year_y"], 1, 1) + dt.timedelta(cal["doy"] - 1)
    elif cal["year_y"] and cal["month"] and cal["dom"]:
        d = dt.date(cal["year_y"], cal["month"], cal["dom"])  # may raise ValueError: impossible date
    if all(v is None for v in cal.values()):
        d = today
    if d:
        cal = cal_from_date(d)
    elif cal["quarter"] is None and cal["month"]:
        cal["quarter"] = (cal["month"] - 1) // 3 + 1
    st.update(cal)
    return st


def next_build(bid):
    """README: '1001, 1002 .. 1999, 22000' (lexical ids): ids below 1000 are first lifted by 1000;
    +1 keeps the width; if the first digit would change, the id grows by one digit: d99..9 -> (d+1)(d+1)0..0;
    all-9 is the maximum."""
    n = int(bid)
    if n < 1000:
        bid = str(n + 1000).zfill(len(bid))  # the width (leading zeros) is never lost
    if set(bid) == {"9"}:
        raise OverflowError(bid)
    width = len(bid)
    s = str(int(bid) + 1).zfill(width)
    if len(s) > width or s[0] != bid[0]:
        first = int(bid[0]) + 1
        s = str(first) * 2 + "0" * (width - 1)
    return s


RESET = {"major": 0, "minor": 0, "patch": 0, "num": 0, "inc0": 0, "inc1": 1}


def week_pairing_ok(names):
    has = lambda *xs: any(x in names for x in xs)  # noqa: E731
    if has("YYYY", "YY", "0Y") and has("VV", "0V"):
        return False
    if has("GGGG", "GG", "0G") and has("WW", "0W", "UU", "0U"):
        return False
    return True


def bump_state(ast, old, date, major=False, minor=False, patch=False, tag=None, tag_num=False,
               pin_increments=False, pin_date=False):
    """Expected new state or None (refusal before rendering)."""
    names = list(parts_in(ast))
    cur = dict(old)
    if not pin_date:
        new_cal = cal_from_date(date)
        known = [f for f in CAL_FIELDS if old[f] is not None]
        if not ([old[f] for f in known] > [new_cal[f] for f in known]):
            cur.update(new_cal)
    if tag_num and (not tag or tag == "final") and cur["tag"] == "final":
        return None
    if major:
        cur["major"] += 1
    if minor:
        cur["minor"] += 1
    if patch:
        cur["patch"] += 1
    if tag_num:
        cur["num"] += 1
    if tag:
        if tag != cur["tag"]:
            cur["num"] = 0
        cur["tag"] = tag
    if not pin_increments:
        cur["inc0"] += 1
        cur["inc1"] += 1
    cur["bid"] = next_build(cur["bid"])
    changed = False
    for name in names:
        f = FIELD[name]
        if f == "pytag":
            f = "tag"
        if changed and f in RESET:
            cur[f] = RESET[f]
        elif old[f] != cur[f]:
            changed = True
    return cur


def bump(pattern, old_text, date, today, **flags):
    """Expected `bumpver test` result text, or None when bumpver must refuse (before the PEP 440 gate)."""
    ast = parse_pattern(pattern)
    names = list(parts_in(ast))
    if not week_pairing_ok(names):
        return None
    raw = parse(ast, old_text)
    if raw is None:
        return None
    old = state_from_raw(raw, today)
    cur = bump_state(ast, old, date, **flags)
    if cur is None:
        return None
    new_text = render(ast, cur)
    if new_text == "" or new_text == old_text:
        return None
    if parse(ast, new_text) is None:
        return None
    return new_text


def render_full(ast, st):
    """Rendering with every optional group written out (explicit zeros): a different text that denotes
    the same version, e.g. '1.2.0' for '1.2' under MAJOR.MINOR[.PATCH]."""
    out = ""
    for n in ast:
        if n[0] == "lit":
            out += n[1]
        elif n[0] == "part":
            out += render_part(n[1], st)
        else:
            out += render_full(n[1], st)
    return out


TAG_ORDER = ["dev", "alpha", "beta", "rc", "final", "post"]

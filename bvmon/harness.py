"""Invocation harness and boundary monitors.

* in-process invocation of the real CLI (click CliRunner) inside a sandbox project directory
* log-record capture (own handler; bumpver's basicConfig becomes a no-op)
* audit-hook monitor: write-set (open for writing / remove / rename ...) and spawn-list per invocation
* sys.monitoring reach counters on the anchor functions (PY_START + per-line coverage)
* byte-exact tree snapshots
* fake VCS installation (native/fakevcs.c) and event-log reader
* real subprocess invocation (true CLI boundary, locale experiments)
"""
import collections
import logging
import os
import shutil
import subprocess
import sys
import tempfile
import traceback

from bvmon import core


class Skip(Exception):
    """Case is outside the property's domain (counted, never a verdict)."""


_STATE = {
    "init": False,
    "active": False,
    "records": None,
    "writes": None,
    "spawns": None,
    "trace": None,
    "tmproot": None,
    "runner": None,
    "cli": None,
}
_REACH = collections.Counter()
_LINES = collections.defaultdict(set)
_TARGETS = {}

WRITE_EVENTS = {"os.remove", "os.rename", "os.mkdir", "os.rmdir", "os.chmod", "os.truncate", "os.link",
                "os.symlink", "shutil.copyfile", "shutil.move", "shutil.rmtree"}


class _Capture(logging.Handler):
    def emit(self, record):
        recs = _STATE["records"]
        if recs is not None:
            try:
                msg = record.getMessage()
            except Exception as ex:  # pragma: no cover
                msg = f"<unformattable {ex!r}>"
            recs.append((record.levelname, record.name, msg))


def _audit(event, args):
    if not _STATE["active"]:
        return
    try:
        if event == "open":
            path, mode, flags = args
            is_write = False
            if isinstance(mode, str):
                is_write = any(c in mode for c in "wax+")
            elif isinstance(flags, int):
                is_write = bool(flags & (os.O_WRONLY | os.O_RDWR | os.O_CREAT | os.O_TRUNC | os.O_APPEND))
            if is_write and isinstance(path, (str, bytes, os.PathLike)):
                _STATE["writes"].append(("open", os.fsdecode(path)))
        elif event == "subprocess.Popen":
            exe, argv = args[0], args[1]
            _STATE["spawns"].append([os.fsdecode(a) if isinstance(a, (bytes, os.PathLike)) else str(a)
                                     for a in (argv if not isinstance(argv, str) else [argv])])
        elif event in WRITE_EVENTS:
            _STATE["writes"].append((event, os.fsdecode(args[0]) if args and isinstance(args[0], (str, bytes)) else ""))
    except Exception:  # never disturb the observed execution
        pass


_COV = set()
_COV_ON = bool(os.environ.get("BVMON_COVERAGE"))


def _py_start(code, offset):
    if _COV_ON and "bumpver" in code.co_filename and code.co_filename.startswith(core.src_dir()):
        # coverage mode: every line of every function of the code under test (each location fires once)
        try:
            sys.monitoring.set_local_events(_TOOL, code, sys.monitoring.events.LINE)
        except Exception:
            pass
    key = _TARGETS.get((os.path.basename(code.co_filename), code.co_qualname))
    if key is None or "bumpver" not in code.co_filename:
        return sys.monitoring.DISABLE if not _COV_ON else None
    _REACH[key] += 1
    if key not in _LINES:
        _LINES[key] = set()
        try:
            sys.monitoring.set_local_events(_TOOL, code, sys.monitoring.events.LINE)
        except Exception:
            pass
    return None


def _line(code, line):
    key = _TARGETS.get((os.path.basename(code.co_filename), code.co_qualname))
    if key is not None:
        _LINES[key].add(line)
    if _COV_ON:
        _COV.add((os.path.basename(code.co_filename), line))
    return sys.monitoring.DISABLE


_TOOL = 3


def init_process(anchors=()):
    if _STATE["init"]:
        return
    _STATE["init"] = True
    core.setup_paths()
    root = logging.getLogger()
    root.addHandler(_Capture())
    root.setLevel(logging.INFO)
    sys.addaudithook(_audit)
    for mname, fname in anchors:
        _TARGETS[(mname + ".py", fname)] = f"{mname}.{fname}"
    if (_TARGETS or _COV_ON) and hasattr(sys, "monitoring"):
        try:
            sys.monitoring.use_tool_id(_TOOL, "bvmon")
            sys.monitoring.register_callback(_TOOL, sys.monitoring.events.PY_START, _py_start)
            sys.monitoring.register_callback(_TOOL, sys.monitoring.events.LINE, _line)
            sys.monitoring.set_events(_TOOL, sys.monitoring.events.PY_START)
        except Exception:
            pass
    _STATE["tmproot"] = tempfile.mkdtemp(prefix="bvmon-")
    _STATE["home"] = os.getcwd()


def bv():
    """The real code under test (imported lazily from BUMPVER_SRC, default /repo/src)."""
    if _STATE["cli"] is None:
        import bumpver.cli as cli
        assert os.path.abspath(cli.__file__).startswith(os.path.abspath(core.src_dir())), cli.__file__
        from click.testing import CliRunner
        _STATE["cli"] = cli
        _STATE["runner"] = CliRunner()
    return _STATE["cli"]


def coverage_lines():
    return sorted(_COV)


def reach_counts():
    out = dict(_REACH)
    for k, v in _LINES.items():
        out[k + "#lines"] = len(v)
    return out


def cleanup():
    try:
        os.chdir(_STATE.get("home") or "/")
    except Exception:
        pass
    if _STATE["tmproot"]:
        shutil.rmtree(_STATE["tmproot"], ignore_errors=True)


class Result:
    __slots__ = ("exit_code", "stdout", "stderr", "records", "writes", "spawns", "crash", "args", "trace")

    def __init__(self):
        self.crash = None

    def record_value(self, prefix):
        for _lvl, _name, msg in self.records:
            if msg.startswith(prefix):
                return msg[len(prefix):]
        return None

    def stdout_value(self, prefix):
        for line in self.stdout.splitlines():
            if line.startswith(prefix):
                return line[len(prefix):]
        return None

    def errors(self):
        return [m for lvl, _n, m in self.records if lvl in ("ERROR", "WARNING")]

    def brief(self):
        return {"exit": self.exit_code, "stdout": self.stdout[-600:], "crash": self.crash,
                "log": [f"{l}:{m[:160]}" for l, _n, m in self.records[-8:]]}


def invoke(args, cwd=None, env=None):
    """Run the real CLI in-process. Hygiene: reset the sticky verbosity flag, chdir, patch env."""
    cli = bv()
    cli._VERBOSE = 0
    res = Result()
    res.args = list(args)
    old_cwd = os.getcwd()
    old_env = {}
    if env:
        for k, v in env.items():
            old_env[k] = os.environ.get(k)
            if v is None:
                os.environ.pop(k, None)
            else:
                os.environ[k] = v
    if cwd:
        os.chdir(cwd)
    _STATE["records"], _STATE["writes"], _STATE["spawns"], _STATE["trace"] = [], [], [], []
    _STATE["active"] = True
    try:
        r = _STATE["runner"].invoke(cli.cli, list(args))
    finally:
        _STATE["active"] = False
        os.chdir(old_cwd)
        for k, v in old_env.items():
            if v is None:
                os.environ.pop(k, None)
            else:
                os.environ[k] = v
    res.exit_code = r.exit_code
    res.stdout = r.stdout
    try:
        res.stderr = r.stderr
    except Exception:
        res.stderr = ""
    res.records, res.writes, res.spawns = _STATE["records"], _STATE["writes"], _STATE["spawns"]
    res.trace = _STATE["trace"]
    _STATE["records"] = None
    _STATE["trace"] = None
    if r.exception is not None and not isinstance(r.exception, SystemExit):
        tb = "".join(traceback.format_exception(*r.exc_info)) if r.exc_info else repr(r.exception)
        res.crash = f"{type(r.exception).__name__}: {r.exception} || " + tb[-700:]
    return res


def trace_event(name, **info):
    """Append an event to the trace of the invocation in progress (used by the contracts)."""
    tr = _STATE["trace"]
    if tr is not None:
        tr.append((name, info))


def call(fn, *a, **kw):
    """Call an inner function of the real code with log capture (records discarded)."""
    _STATE["records"] = []
    try:
        return fn(*a, **kw)
    finally:
        _STATE["records"] = None


def run_cli_subprocess(args, cwd, env=None, timeout=120, extra_py_args=()):
    """The true CLI boundary: python -m bumpver ... in a child process."""
    e = dict(os.environ)
    e["PYTHONPATH"] = core.src_dir()
    e.pop("BUMPVER_SRC", None)
    if env:
        for k, v in env.items():
            if v is None:
                e.pop(k, None)
            else:
                e[k] = v
    try:
        p = subprocess.run([core.PY, *extra_py_args, "-m", "bumpver", *args], cwd=cwd, env=e,
                           capture_output=True, timeout=timeout)
    except subprocess.TimeoutExpired:
        raise Skip("subprocess-timeout")
    return p.returncode, p.stdout.decode("utf-8", "replace"), p.stderr.decode("utf-8", "replace")


def run_cli_watch_for_deadlock(args, cwd, env=None, budget=25.0):
    """Run the CLI in a child process. Returns ("exit", rc, out, err) or ("deadlock", detail) or ("slow", detail).

    A run that does not finish is examined through /proc instead of being judged by the clock: if bumpver sleeps in a
    pipe READ while a child of it sleeps in a pipe WRITE, unchanged over two samples, that wait-for cycle will never
    resolve ("deadlock"). Anything else that is merely slow is "slow" (inconclusive)."""
    import time
    e = dict(os.environ)
    e["PYTHONPATH"] = core.src_dir()
    e.pop("BUMPVER_SRC", None)
    e.update(env or {})
    p = subprocess.Popen([core.PY, "-m", "bumpver", *args], cwd=cwd, env=e, stdout=subprocess.PIPE, stderr=subprocess.PIPE)

    def wchan(pid):
        try:
            return open(f"/proc/{pid}/wchan").read().strip(), open(f"/proc/{pid}/stat").read().split(") ")[1].split()[0]
        except OSError:
            return None, None

    def children(pid):
        try:
            return [int(x) for x in open(f"/proc/{pid}/task/{pid}/children").read().split()]
        except OSError:
            return []

    t0 = time.monotonic()
    samples = []
    try:
        while time.monotonic() - t0 < budget:
            try:
                out, err = p.communicate(timeout=1.0)
                return ("exit", p.returncode, out.decode("utf-8", "replace"), err.decode("utf-8", "replace"))
            except subprocess.TimeoutExpired:
                pass
            if time.monotonic() - t0 > 4.0:
                kids = children(p.pid)
                samples.append((wchan(p.pid), tuple(wchan(k) for k in kids)))
                if len(samples) >= 3 and samples[-1] == samples[-2] == samples[-3] and samples[-1][1]:
                    (pw, ps), kid = samples[-1][0], samples[-1][1][0]
                    if pw and "read" in pw and kid[0] and "write" in kid[0] and ps == "S" and kid[1] == "S":
                        return ("deadlock", f"bumpver sleeps in {pw}, its child in {kid[0]} (3 identical samples)")
        return ("slow", f"not finished after {budget}s: {samples[-1:]}")
    finally:
        if p.poll() is None:
            for k in children(p.pid):
                try:
                    os.kill(k, 9)
                except OSError:
                    pass
            p.kill()
            p.communicate()


# ---------------------------------------------------------------------------------------
# sandbox projects and snapshots

_counter = [0]


def new_dir(prefix="p"):
    _counter[0] += 1
    d = os.path.join(_STATE["tmproot"], f"{prefix}{_counter[0]}")
    os.makedirs(d)
    return d


def write_files(root, files):
    for rel, data in files.items():
        p = os.path.join(root, rel)
        os.makedirs(os.path.dirname(p), exist_ok=True)
        with open(p, "wb") as f:
            f.write(data if isinstance(data, bytes) else data.encode("utf-8"))


def new_project(files, prefix="p"):
    d = new_dir(prefix)
    write_files(d, files)
    return d


def rm_dir(d):
    shutil.rmtree(d, ignore_errors=True)


def snapshot(root, meta=False):
    """Byte-exact snapshot {relpath: bytes} (optionally with inode and mtime_ns)."""
    out = {}
    for dirpath, dirnames, filenames in os.walk(root):
        dirnames[:] = [d for d in dirnames if d not in (".git", ".hg")]
        for fn in filenames:
            p = os.path.join(dirpath, fn)
            rel = os.path.relpath(p, root)
            with open(p, "rb") as f:
                data = f.read()
            if meta:
                st = os.stat(p)
                out[rel] = (data, st.st_ino, st.st_mtime_ns)
            else:
                out[rel] = data
    return out


def diff_snapshots(a, b):
    """Paths whose bytes differ (or that exist on one side only)."""
    return sorted(k for k in set(a) | set(b) if a.get(k) != b.get(k))


def writes_inside(res, root):
    """Audit-hook write-set of an invocation restricted to the project directory (relative paths)."""
    out = set()
    rroot = os.path.realpath(root)
    for _ev, path in res.writes:
        ap = os.path.realpath(path if os.path.isabs(path) else os.path.join(root, path))
        if ap == rroot or ap.startswith(rroot + os.sep):
            out.add(os.path.relpath(ap, rroot))
    return out


# ---------------------------------------------------------------------------------------
# fake VCS

FAKE_BIN = os.path.join(core.VERIF, ".build", "fakevcs")


def fnv64(data):
    h = 1469598103934665603
    for b in data:
        h ^= b
        h = (h * 1099511628211) & 0xFFFFFFFFFFFFFFFF
    return "%016x" % h


class FakeVCS:
    """git/hg/hook executables that only log. One per project directory."""

    def __init__(self, project, vcs="git"):
        self.project = project
        self.base = project + ".fake"
        self.bin = os.path.join(self.base, "bin")
        self.ctl = os.path.join(self.base, "ctl")
        self.log = os.path.join(self.base, "events.log")
        os.makedirs(self.bin)
        os.makedirs(os.path.join(self.ctl, "out"))
        for name in ("git", "hg"):
            os.symlink(FAKE_BIN, os.path.join(self.bin, name))
        os.makedirs(os.path.join(project, "." + vcs), exist_ok=True)
        self.vcs = vcs
        # PATH: only the fake dir + minimal system dirs WITHOUT a real git
        self.env = {"PATH": self.bin, "BVMON_LOG": self.log, "BVMON_CTL": self.ctl}

    def hook(self, kind):
        """Create a hook executable inside the project; returns its relative path."""
        rel = f"hook-{kind}"
        p = os.path.join(self.project, rel)
        if not os.path.lexists(p):
            shutil.copy(FAKE_BIN, p)
        return rel

    def set_out(self, key, text):
        with open(os.path.join(self.ctl, "out", key), "wb") as f:
            f.write(text if isinstance(text, bytes) else text.encode("utf-8"))

    def fail_match(self, lines):
        with open(os.path.join(self.ctl, "fail_match"), "w") as f:
            f.write("\n".join(lines) + "\n")

    def kill_match(self, lines):
        """invocations that die from SIGKILL (a negative returncode for the caller)"""
        with open(os.path.join(self.ctl, "kill_match"), "w") as f:
            f.write("\n".join(lines) + "\n")

    def hook_noise(self, nbytes):
        with open(os.path.join(self.ctl, "hook_noise"), "w") as f:
            f.write(str(nbytes))

    def fail_nth(self, k):
        with open(os.path.join(self.ctl, "fail_nth"), "w") as f:
            f.write(str(k))

    def reset(self):
        for n in ("fail_match", "kill_match", "fail_nth", "fetched", "hook_noise"):
            try:
                os.unlink(os.path.join(self.ctl, n))
            except FileNotFoundError:
                pass
        try:
            os.unlink(self.log)
        except FileNotFoundError:
            pass

    def events(self):
        return read_event_log(self.log)

    def destroy(self):
        shutil.rmtree(self.base, ignore_errors=True)


def _unhex(tok):
    return b"" if tok == "-" else bytes.fromhex(tok)


def read_event_log(path):
    evs = []
    if not os.path.exists(path):
        return evs
    with open(path, "rb") as f:
        for line in f.read().decode("ascii").splitlines():
            seq, name, argv, env, files, extra, code = line.split("\t")
            a = [] if argv == "-" else [_unhex(t).decode("utf-8", "surrogateescape") for t in argv.split(" ")]
            e = {}
            if env != "-":
                for t in env.split(" "):
                    k, _, v = _unhex(t).decode("utf-8", "surrogateescape").partition("=")
                    e[k] = v
            fl = {}
            if files != "-":
                for t in files.split(" "):
                    hp, _, h = t.partition(":")
                    fl[_unhex(hp).decode("utf-8", "surrogateescape")] = h
            evs.append({"seq": int(seq), "name": name, "argv": a, "env": e, "files": fl,
                        "extra": None if extra == "-" else _unhex(extra), "exit": int(code)})
    return evs


def mutating_kind(ev):
    """Classify an event of the log: which step of the update pipeline is it (None = read-only query)."""
    name, a = ev["name"], ev["argv"]
    if name.startswith("hook-pre"):
        return "pre-hook"
    if name.startswith("hook-post"):
        return "post-hook"
    if not a:
        return None
    if name == "git":
        if a[0] == "add":
            return "add"
        if a[0] == "commit":
            return "commit"
        if a[0] == "tag" and "--list" not in a:
            return "tag"
        if a[0] == "push":
            return "push"
        if a[0] == "fetch":
            return "fetch"
    if name == "hg":
        if a[0] == "add":
            return "add"
        if a[0] == "commit":
            return "commit"
        if a[0] == "tag":
            return "tag"
        if a[0] == "push":
            return "push"
        if a[0] == "pull":
            return "fetch"
    return None

"""Generators: pattern grammar G, reachable version states, flag sets."""
import datetime as dt
import itertools

from bvmon import ref

YEAR = ["YYYY", "YY", "0Y"]
CAL_SUB = [[], ["MM"], ["0M"], ["MM", "DD"], ["0M", "0D"], ["MM", "0D"], ["0M", "DD"], ["JJJ"], ["00J"], ["Q"],
           ["WW"], ["0W"], ["UU"], ["0U"], ["Q", "MM"], ["0M", "0D", "INC0"]]
ISO = [["GGGG", "VV"], ["GGGG", "0V"], ["GG", "0V"], ["0G", "VV"], ["0G", "0V"], ["GG", "VV"]]
NUMS = ["MAJOR", "MINOR", "PATCH", "INC0", "INC1", "BUILD", "BLD"]
FIXED_WIDTH = {"YYYY", "0Y", "GGGG", "0G", "0M", "0D", "00J", "0W", "0U", "0V", "Q"}
PADDED = ("0M", "0D", "00J", "0W", "0U", "0V")
TAG_TAILS = ["[-TAG]", "[PYTAGNUM]", "[-TAGNUM]", "[-TAG[NUM]]", "-TAG", "[.PYTAGNUM]", "[-PYTAGNUM]", "[PYTAG[NUM]]",
             "-TAGNUM", "PYTAGNUM", "[-TAG.NUM]", "[-TAG[.NUM]]", "[.TAG.NUM]", "-TAG.NUM", "[-TAG-NUM]", "[_TAG_NUM]"]


def gen_pattern(R, decorate=True, pep_bias=False):
    """One unambiguous pattern of grammar G (see DESIGN.md section 3)."""
    parts = []
    c = R.random()
    if c < 0.5:
        sub = [p for p in R.choice(CAL_SUB)]
        parts += [R.choice(YEAR)] + sub
    elif c < 0.62:
        parts += list(R.choice(ISO))
    k = R.randint(0 if parts else 1, 3)
    pool = [n for n in NUMS if n not in parts]
    chosen = R.sample(pool, min(k, len(pool)))
    nums = [n for n in NUMS if n in chosen] if R.random() < 0.7 else chosen
    if "BUILD" in nums and "BLD" in nums:
        nums.remove("BLD")
    parts += nums
    if len(parts) > 1 and parts[0] not in nums and nums and R.random() < 0.12:
        # a numeric part in front of the calendar parts (MAJOR.0Y.BUILD): the year is then a later component
        lead = nums[0] if nums[0] in ("MAJOR", "MINOR", "PATCH", "INC0", "INC1") else None
        if lead:
            parts.remove(lead)
            parts.insert(0, lead)
    pat = R.choice(["", "", "v"])
    n_opt = 0
    seps = []
    for i, p in enumerate(parts):
        sep = "" if i == 0 else R.choice([".", ".", ".", ".", ".", "-", "_"] if not pep_bias else ["."] * 12 + ["-", "_"])
        if i > 0 and R.random() < 0.15 and p in PADDED and parts[i - 1] in FIXED_WIDTH:
            sep = ""
        seps.append(sep)
        if i > 0 and i >= len(parts) - 2 and p in ("PATCH", "MINOR", "INC0", "MAJOR") and R.random() < 0.3 and sep:
            pat += "[" + sep + p
            n_opt += 1
        else:
            pat += sep + p
    t = R.random()
    tail = ""
    if t < 0.7:
        tail = R.choice(TAG_TAILS[:6]) if R.random() < 0.7 else R.choice(TAG_TAILS)
    last = parts[-1] if parts else ""
    if tail.startswith("PYTAG") or tail.startswith("[PYTAG"):
        pass  # letters directly after digits: unambiguous
    pat += tail
    pat += "]" * n_opt
    if decorate and R.random() < (0.02 if pep_bias else 0.08):
        pre = R.choice(["r", "rel-", "x_", "\\[", "ver.", "(", "+"])
        post = R.choice(["", "\\]", "!", "~", ")", " "]) if not pat.endswith("NUM]") or True else ""
        if pat.startswith("v"):
            pat = pat[1:]
        pat = pre + pat + post
    return pat


def gen_date(R, wide=False):
    if wide and R.random() < 0.3:
        y = R.choice([1000, 1001, 1582, 1899, 1900, 1999, 2000, 2100, 2400, 9998, 9999, R.randint(1000, 9999)])
    else:
        y = R.randint(2001, 2098)
    r = R.random()
    if r < 0.25:
        m, d = R.choice([(1, 1), (1, 2), (1, 3), (1, 4), (1, 5), (1, 6), (1, 7), (12, 25), (12, 26), (12, 27),
                         (12, 28), (12, 29), (12, 30), (12, 31), (2, 28), (3, 1), (10, 1), (9, 30)])
        return dt.date(y, m, d)
    return dt.date(y, 1, 1) + dt.timedelta(R.randint(0, 364))


BIDS = ["1000", "1001", "1999", "22000", "0001", "0999", "999", "99", "1", "10", "0123", "8999", "9998", "1009",
        "1099", "29999", "330000", "09", "099", "0033", "2", "100"]


def gen_state(R, names, wide=False):
    d = gen_date(R, wide and not any(n in names for n in ("YY", "0Y", "GG", "0G")))
    st = ref.cal_from_date(d)
    has_tag = any(n in names for n in ("TAG", "PYTAG"))
    tag = R.choice(ref.TAG_LIST) if has_tag else "final"
    if "TAG" in names and "PYTAG" not in names and R.random() < 0.08:
        tag = "preview"
    has_num = "NUM" in names
    st.update(
        major=R.choice([0, 0, 1, 2, 9, 10, 99, 100]), minor=R.choice([0, 0, 1, 9, 10, 99]),
        patch=R.choice([0, 0, 1, 9, 10, 99, 100]), bid=R.choice(BIDS), tag=tag,
        num=(R.choice([0, 0, 1, 2, 9, 10]) if (tag != "final" and has_num) else 0),
        inc0=R.choice([0, 0, 1, 5, 9, 10]), inc1=R.choice([1, 1, 2, 9, 10, 99]),
    )
    return d, st


def reachable(ast, st, today):
    """(text, state) where state is what re-reading the rendered text yields (hidden parts get their
    defaults) - the only states a bumpver run can start from. None if not readable by the model."""
    text = ref.render(ast, st)
    raw = ref.parse(ast, text)
    if raw is None:
        return None
    try:
        return text, ref.state_from_raw(raw, today)
    except ValueError:
        return None


FLAG_NAMES = ["major", "minor", "patch", "tag", "tag_num", "pin_increments", "pin_date"]


def all_flag_sets():
    return list(itertools.product([False, True], repeat=7))


def flags_to_args(flags, date):
    args = []
    for f in ("major", "minor", "patch"):
        if flags.get(f):
            args.append("--" + f)
    if flags.get("tag"):
        args += ["--tag", flags["tag"]]
    if flags.get("tag_num"):
        args.append("--tag-num")
    if flags.get("pin_increments"):
        args.append("--pin-increments")
    if flags.get("pin_date"):
        args.append("--pin-date")
    elif date is not None:
        args += ["--date", date if isinstance(date, str) else date.isoformat()]
    return args


DATE_OFFSETS = [0, 0, 1, 7, 31, 92, 366, 800, -1, -40, -400]


def gen_flags(R, names=None, applicable_only=False):
    bits = [R.random() < p for p in (0.2, 0.2, 0.25, 0.3, 0.2, 0.15, 0.15)]
    fl = dict(zip(FLAG_NAMES, bits))
    fl["tag"] = R.choice(ref.TAG_LIST) if fl["tag"] else None
    if applicable_only and names is not None:
        for f, p in (("major", "MAJOR"), ("minor", "MINOR"), ("patch", "PATCH")):
            if p not in names:
                fl[f] = False
    return fl

#!/bin/sh
# Offline setup: third-party deps for the monitors + the native fake VCS executable.
# Idempotent; every check calls it when .deps/.build are missing.
set -e
cd "$(dirname "$0")"
if [ ! -d .deps/icontract ]; then
    /venv/bin/python -m pip install --quiet --no-index --find-links /opt/veriftools/wheels \
        --target .deps icontract packaging >/dev/null 2>&1 || {
        echo "setup: pip install of icontract failed" >&2; exit 3; }
fi
mkdir -p .build
if [ ! -x .build/fakevcs ] || [ native/fakevcs.c -nt .build/fakevcs ]; then
    cc -O2 -o .build/fakevcs.tmp native/fakevcs.c && mv .build/fakevcs.tmp .build/fakevcs
fi
echo "setup ok"
